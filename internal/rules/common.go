// Package rules holds the per-property static rules.
package rules

import (
	"fmt"
	"go/ast"
	"go/token"
	"go/types"
	"os"
	"sort"
	"strings"

	"golang.org/x/tools/go/packages"
	"golang.org/x/tools/go/ssa"

	"verif/internal/absint"
	"verif/internal/check"
	"verif/internal/load"
	"verif/internal/models"
	"verif/internal/sym"
)

// Ctx is the context of one property check.
type Ctx struct {
	R     *check.Report
	Tier  string
	AsDep bool // the rules are being evaluated as a lower layer of another property's check
	progs map[string]*load.Program
}

// NewCtx creates a context.
func NewCtx(r *check.Report, tier string) *Ctx {
	return &Ctx{R: r, Tier: tier, progs: map[string]*load.Program{}}
}

// CheckError aborts the check with exit status 2.
type CheckError struct{ Msg string }

// Prog loads (once) the given build configuration of the tree under analysis.
func (c *Ctx) Prog(cfg load.Config) *load.Program {
	if p, ok := c.progs[cfg.Name]; ok {
		return p
	}
	p, err := load.Load(cfg, "")
	if err != nil {
		panic(CheckError{err.Error()})
	}
	c.progs[cfg.Name] = p
	c.R.Configs = append(c.R.Configs, cfg.Name)
	return p
}

// Progs returns the configurations loaded so far (sorted by name).
func (c *Ctx) Progs() []*load.Program {
	var out []*load.Program
	for _, k := range SortedKeys(c.progs) {
		out = append(out, c.progs[k])
	}
	return out
}

// Thorough reports whether the thorough tier was requested.
func (c *Ctx) Thorough() bool { return c.Tier == "thorough" }

// Registry maps property ids to their checks.
var Registry = map[string]func(*Ctx){}

// Levels gives the claimed level per property.
var Levels = map[string]string{}

func register(id, level string, f func(*Ctx)) {
	Registry[id] = f
	Levels[id] = level
}

// Run is the result of abstractly interpreting one function.
type Run struct {
	Ex   *absint.Exec
	Fn   *ssa.Function
	Args []absint.Val
	Out  absint.Outcome
	Err  error
	Prog *load.Program
}

// ArgSpec describes how to build one argument.
type ArgSpec struct {
	Name  string
	Alias int // index of an earlier argument to alias with, or -1
	Val   absint.Val
	Taint uint64
	// SameSymsAs makes a distinct object initialised with the same symbols as an earlier argument.
	SameSymsAs int
}

// RunOpts configures RunFn.
type RunOpts struct {
	Args   []ArgSpec // optional per-parameter overrides (by position)
	Config func(cfg *absint.Config)
	Pre    func(ex *absint.Exec, st *absint.State, args []absint.Val)
}

// FuncName builds the printed name of a method or function.
func Method(typ, name string) string { return "(*" + typ + ")." + name }

// RunFn abstractly interprets the named function on symbolic arguments.
func RunFn(prog *load.Program, set *models.Set, name string, opts *RunOpts) *Run {
	cfg := &absint.Config{Prog: prog}
	set.Apply(cfg)
	if opts != nil && opts.Config != nil {
		opts.Config(cfg)
	}
	ex := absint.New(cfg)
	fn := ex.Func(name)
	r := &Run{Ex: ex, Fn: fn, Prog: prog}
	if fn == nil {
		r.Err = fmt.Errorf("function %s not found", name)
		return r
	}
	st := ex.NewState()
	for i, p := range fn.Params {
		var spec ArgSpec
		spec.Alias, spec.SameSymsAs = -1, -1
		if opts != nil && i < len(opts.Args) {
			spec = opts.Args[i]
		}
		nm := spec.Name
		if nm == "" {
			nm = p.Name()
		}
		switch {
		case spec.Val != nil:
			r.Args = append(r.Args, spec.Val)
		case spec.Alias >= 0:
			r.Args = append(r.Args, r.Args[spec.Alias])
		case spec.SameSymsAs >= 0:
			other := opts.Args[spec.SameSymsAs].Name
			if other == "" {
				other = fn.Params[spec.SameSymsAs].Name()
			}
			r.Args = append(r.Args, ex.SymParam(p.Type(), other, spec.Taint))
		default:
			r.Args = append(r.Args, ex.SymParam(p.Type(), nm, spec.Taint))
		}
	}
	if opts != nil && opts.Pre != nil {
		opts.Pre(ex, st, r.Args)
	}
	r.Out, r.Err = ex.Call(st, fn, r.Args)
	return r
}

// OK reports whether the run completed without analysis failures.
func (r *Run) OK() bool { return r.Err == nil && len(r.Ex.Fails) == 0 && r.Out.Ret != nil }

// Problem describes why a run is unusable.
func (r *Run) Problem() string {
	if r.Err != nil {
		return r.Err.Error()
	}
	if len(r.Ex.Fails) > 0 {
		return "analysis incomplete: " + strings.Join(firstN(r.Ex.Fails, 3), "; ")
	}
	if r.Out.Ret == nil {
		return "no path returns"
	}
	return ""
}

func firstN(s []string, n int) []string {
	if len(s) > n {
		return s[:n]
	}
	return s
}

// Final returns the merged state at return.
func (r *Run) Final() *absint.State { return r.Out.Ret.St }

// FieldOf loads the leaf at the given field path of the object argument i points to, in the final state.
func (r *Run) FieldOf(i int, path ...int) absint.Val {
	p, ok := r.Args[i].(*absint.Ptr)
	if !ok {
		return nil
	}
	return r.At(p, path...)
}

// At loads base.path in the final state.
func (r *Run) At(base *absint.Ptr, path ...int) absint.Val {
	q := &absint.Ptr{Obj: base.Obj, Path: append([]absint.Step(nil), base.Path...)}
	for _, f := range path {
		q.Path = append(q.Path, absint.Step{Field: f})
	}
	return r.Final().Resolve(r.Ex.LoadLeaf(r.Final(), q))
}

// TermAt is At for term-valued leaves.
func (r *Run) TermAt(base *absint.Ptr, path ...int) *sym.Term {
	t, _ := r.At(base, path...).(*sym.Term)
	return t
}

// Result returns result i of the merged return.
func (r *Run) Result(i int) absint.Val {
	res := r.Out.Ret.Results
	if tu, ok := res.(absint.Tuple); ok {
		if i < len(tu) {
			return r.Final().Resolve(tu[i])
		}
		return nil
	}
	if i == 0 {
		return r.Final().Resolve(res)
	}
	return nil
}

// Pos renders the position of a function.
func PosOf(prog *load.Program, fn *ssa.Function) string {
	if fn == nil {
		return "?"
	}
	p := prog.SSA.Fset.Position(fn.Pos())
	return rel(prog, p.Filename) + fmt.Sprintf(":%d", p.Line)
}

func rel(prog *load.Program, f string) string {
	return strings.TrimPrefix(f, prog.Dir+"/")
}

// PosStr renders a token.Pos.
func PosStr(prog *load.Program, pos token.Pos) string {
	if !pos.IsValid() {
		return "?"
	}
	p := prog.SSA.Fset.Position(pos)
	return rel(prog, p.Filename) + fmt.Sprintf(":%d", p.Line)
}

// FieldIndex finds the index of a struct field by name.
func FieldIndex(prog *load.Program, pkgPath, typeName, field string) int {
	p := prog.ByPath[pkgPath]
	if p == nil {
		return -1
	}
	o := p.Types.Scope().Lookup(typeName)
	if o == nil {
		return -1
	}
	st, ok := o.Type().Underlying().(*types.Struct)
	if !ok {
		return -1
	}
	for i := 0; i < st.NumFields(); i++ {
		if st.Field(i).Name() == field {
			return i
		}
	}
	return -1
}

// GuardString renders a path guard.
func GuardString(g []absint.Lit) string {
	var parts []string
	for _, l := range g {
		s := l.T.String()
		if !l.Val {
			s = "!" + s
		}
		parts = append(parts, s)
	}
	return strings.Join(parts, " && ")
}

// GuardSet returns the set of literal strings of a guard.
func GuardSet(g []absint.Lit) map[string]bool {
	m := map[string]bool{}
	for _, l := range g {
		s := l.T.String()
		if !l.Val {
			s = "!" + s
		}
		m[s] = true
	}
	return m
}

// PkgOf returns the loaded package by path.
func PkgOf(prog *load.Program, path string) *packages.Package { return prog.ByPath[path] }

// FuncDecl finds the AST declaration of a function in a package ("Recv.Name" or "Name").
func FuncDecl(pkg *packages.Package, name string) *ast.FuncDecl {
	for _, f := range pkg.Syntax {
		for _, d := range f.Decls {
			fd, ok := d.(*ast.FuncDecl)
			if !ok {
				continue
			}
			n := fd.Name.Name
			if fd.Recv != nil && len(fd.Recv.List) == 1 {
				t := fd.Recv.List[0].Type
				if s, ok := t.(*ast.StarExpr); ok {
					t = s.X
				}
				if id, ok := t.(*ast.Ident); ok {
					n = id.Name + "." + n
				}
			}
			if n == name {
				return fd
			}
		}
	}
	return nil
}

// SortedKeys returns the sorted keys of a string-keyed map.
func SortedKeys[V any](m map[string]V) []string {
	out := make([]string, 0, len(m))
	for k := range m {
		out = append(out, k)
	}
	sort.Strings(out)
	return out
}

// Getenv with default.
func Getenv(k, d string) string {
	if v := os.Getenv(k); v != "" {
		return v
	}
	return d
}

// ModuleFuncs lists all source functions (incl. methods and closures) of the module's packages.
func ModuleFuncs(prog *load.Program) []*ssa.Function {
	var out []*ssa.Function
	seen := map[*ssa.Function]bool{}
	var add func(f *ssa.Function)
	add = func(f *ssa.Function) {
		if f == nil || seen[f] {
			return
		}
		seen[f] = true
		out = append(out, f)
		for _, a := range f.AnonFuncs {
			add(a)
		}
	}
	for _, pkg := range prog.Pkgs {
		sp := prog.SSAPkgs[pkg.PkgPath]
		if sp == nil {
			continue
		}
		for _, m := range sp.Members {
			switch x := m.(type) {
			case *ssa.Function:
				add(x)
			case *ssa.Type:
				for _, t := range []types.Type{x.Type(), types.NewPointer(x.Type())} {
					ms := prog.SSA.MethodSets.MethodSet(t)
					for i := 0; i < ms.Len(); i++ {
						f := prog.SSA.MethodValue(ms.At(i))
						if f != nil && f.Synthetic == "" {
							add(f)
						}
					}
				}
			}
		}
	}
	sort.Slice(out, func(i, j int) bool { return out[i].String() < out[j].String() })
	return out
}

// Deps lists, per property, the properties of the layers directly below it (DESIGN.md section 0.2).
var Deps = map[string][]string{
	"C01": {"C20"},
	"C02": {"C20"},
	"C03": {"C01"},
	"C04": {"C02", "C03", "C19"},
	"C05": {"C03", "C19"},
	"C06": {"C01", "C02", "C03"},
	"C07": {"C02", "C05", "C06", "C11", "C12", "C16"},
	"C08": {"C02", "C05", "C06", "C07", "C09", "C10", "C12"},
	"C09": {"C02"},
	"C10": {"C02", "C04", "C05", "C06"},
	"C11": {"C02", "C06", "C10", "C16"},
	"C12": {"C02", "C06", "C10"},
	"C13": {"C01", "C02", "C06", "C10", "C16"},
	"C14": {"C05", "C13"},
	"C15": {"C01", "C03"},
	"C16": {"C03", "C04", "C05"},
	"C17": {"C20"},
	"C18": {"C06", "C15"},
	"C19": {"C01"},
}

// Every property is decided by sequential reasoning about one call at a time; that is only valid if no routine keeps
// mutable state shared between calls (C20).  C20 is therefore at the bottom of every chain (through C01 / C02).

// DepsClosure returns the transitive lower layers of a property, sorted.
func DepsClosure(id string) []string {
	seen := map[string]bool{}
	var visit func(s string)
	visit = func(s string) {
		for _, d := range Deps[s] {
			if !seen[d] && d != id {
				seen[d] = true
				visit(d)
			}
		}
	}
	visit(id)
	return SortedKeys(seen)
}
