package rules

import (
	"fmt"
	"math/big"
	"sort"
	"strings"

	"verif/internal/absint"
	"verif/internal/models"
	"verif/internal/sym"
)

// ladderSet is the point-internal layer with the windowed-lookup methods replaced by
// their specification sum += idx * tbl[0] (valid when tbl[j] = (j+1)*tbl[0], which is checked at every call).
func ladderSet(semanticTables bool) *models.Set {
	s := models.NewSet().Merge(models.Field()).Merge(models.Helpers()).Merge(models.Scalar()).Merge(models.PointInternal(nil))
	// an unexported accessor of the scalar that has no specification of its own is analysed as written: the conversion out
	// of the Montgomery domain of an abstract scalar yields the limbs of its canonical representative
	s.Merge(models.FiatOnAbstract(models.FiatSPkg, sym.Fn))
	if semanticTables {
		models.SemanticTables(s)
	}
	sel := func(size int) absint.Intercept {
		return func(ex *absint.Exec, c *absint.CallCtx) (absint.Val, bool) {
			tbl, _ := c.St.Resolve(c.Args[0]).(*absint.Ptr)
			sum, _ := c.St.Resolve(c.Args[1]).(*absint.Ptr)
			// the window is the last operand (a scratch addend may sit between the accumulator and the window)
			idx, _ := c.St.Resolve(c.Args[len(c.Args)-1]).(*sym.Term)
			if tbl == nil || sum == nil || idx == nil || len(c.Args) < 3 {
				return nil, false
			}
			idx = c.St.Simplify(idx)
			t0, ok := c.St.Resolve(ex.LoadLeaf(c.St, ex.ElemPtr(tbl, 0))).(*sym.Term)
			if !ok {
				return nil, false
			}
			for j := 1; j < size; j++ {
				tj, ok := c.St.Resolve(ex.LoadLeaf(c.St, ex.ElemPtr(tbl, int64(j)))).(*sym.Term)
				if !ok || !sym.Equal(tj, sym.Mul(sym.Const(sym.Fn, big.NewInt(int64(j+1))), t0)) {
					ex.Failf("table entry %d is not %d times entry 0 at %s", j, j+1, ex.Position(c.Pos))
					return nil, false
				}
			}
			cur, ok := c.St.Resolve(ex.LoadLeaf(c.St, sum)).(*sym.Term)
			if !ok {
				return nil, false
			}
			ex.StoreLeaf(c.St, sum, sym.Add(cur, sym.Mul(models.IntToFn(idx), t0)), c.Pos)
			return sum, true
		}
	}
	s.Intercepts["(*"+models.Mod+".projectivePointMultTable).SelectAndAdd"] = sel(15)
	s.Intercepts["(*"+models.Mod+".projectivePointMultTable).SelectAndAddVartime"] = sel(15)
	s.Intercepts["(*"+models.Mod+".affinePointMultTable).SelectAndAdd"] = sel(15)
	s.Intercepts["(*"+models.Mod+".hugeAffinePointMultTable).SelectAndAddVartime"] = sel(255)
	return s
}

// windowUse says which trailing bytes of the encoding of X were consumed with point Pt.
type windowUse struct {
	X     *sym.Term // scalar whose canonical encoding is scanned
	Pt    *sym.Term // point atom (nil for the constant-coefficient case)
	PtC   *big.Int  // constant coefficient multiplying the generator symbol in table-driven ladders
	Start int       // first byte consumed; bytes Start..31 are all consumed
}

// nibbleOf decodes a window term: returns (byteTerm, kind) with kind 0 = high nibble, 1 = low nibble, 2 = whole byte.
func nibbleOf(t *sym.Term) (*sym.Term, int, bool) {
	for t.Op == "tainted" {
		t = t.Args[0]
	}
	switch {
	case strings.HasPrefix(t.Op, "shr"):
		if k, ok := t.Args[1].Int64(); ok && k == 4 && t.Args[0].Op == "byteat" {
			return t.Args[0], 0, true
		}
	case strings.HasPrefix(t.Op, "and"):
		for i := 0; i < 2; i++ {
			if k, ok := t.Args[i].Int64(); ok && k == 15 && t.Args[1-i].Op == "byteat" {
				return t.Args[1-i], 1, true
			}
		}
	case t.Op == "byteat":
		return t, 2, true
	}
	return nil, 0, false
}

// recogniseLadder rewrites a ladder result  Σ coef * fn_of_int(window(byte_i(X))) * Pt
// into Σ X * Pt, checking that for every (X, Pt) the windows present are exactly the
// nibbles/bytes of a suffix [start,32) of the canonical encoding of X with weights
// 16^(63-p) (p = nibble position).  It returns the rewritten term (valid when
// X < 256^(32-start)) and the uses found.
func recogniseLadder(res *sym.Term) (*sym.Term, []windowUse, error) {
	pl := sym.PolyOf(res)
	type key struct{ x, pt int }
	type group struct {
		X, Pt   *sym.Term
		weights map[int]*big.Int // nibble position -> coefficient
	}
	groups := map[key]*group{}
	var rest *sym.Term = models.PointZero
	for _, t := range pl.SortedTerms() {
		var win, pt *sym.Term
		var extra []sym.AtomPow
		okShape := true
		for _, a := range t.Atoms {
			switch {
			case a.A.Sort == sym.Point:
				if pt != nil || a.E.Cmp(big.NewInt(1)) != 0 {
					okShape = false
				}
				pt = a.A
			case a.A.Op == "fn_of_int":
				if win != nil || a.E.Cmp(big.NewInt(1)) != 0 {
					okShape = false
				}
				win = a.A.Args[0]
			default:
				extra = append(extra, a)
			}
		}
		if !okShape || pt == nil {
			return nil, nil, fmt.Errorf("unexpected monomial in ladder result: %s", sym.FromPoly(&sym.Poly{Sort: sym.Point, Terms: map[string]*sym.PTerm{"": t}}))
		}
		if win == nil {
			// a monomial without window factor (e.g. the other operand of a sum): keep as is
			m := sym.Const(sym.Fn, t.Coef)
			for _, a := range t.Atoms {
				m = sym.Mul(m, sym.Pow(a.A, a.E))
			}
			rest = sym.Add(rest, m)
			continue
		}
		if len(extra) != 0 {
			return nil, nil, fmt.Errorf("window monomial carries extra factors")
		}
		b, kind, ok := nibbleOf(win)
		if !ok {
			return nil, nil, fmt.Errorf("window index is not a nibble/byte of a scalar encoding: %s", win)
		}
		enc := b.Args[0]
		for enc.Op == "tainted" {
			enc = enc.Args[0]
		}
		bi, okb := b.Args[1].Int64()
		if enc.Op != "fn_bytes" || !okb || bi < 0 || bi > 31 {
			return nil, nil, fmt.Errorf("window byte is not a byte of a canonical scalar encoding: %s", b)
		}
		X := enc.Args[0]
		k := key{X.ID, pt.ID}
		g := groups[k]
		if g == nil {
			g = &group{X: X, Pt: pt, weights: map[int]*big.Int{}}
			groups[k] = g
		}
		add := func(p int, w *big.Int) error {
			if _, dup := g.weights[p]; dup {
				return fmt.Errorf("nibble %d of %s used twice", p, X)
			}
			g.weights[p] = w
			return nil
		}
		switch kind {
		case 0:
			if err := add(int(2*bi), t.Coef); err != nil {
				return nil, nil, err
			}
		case 1:
			if err := add(int(2*bi+1), t.Coef); err != nil {
				return nil, nil, err
			}
		case 2:
			// whole byte with weight w: hi nibble weight 16w, lo nibble weight w
			w16 := new(big.Int).Mul(t.Coef, big.NewInt(16))
			w16.Mod(w16, sym.N)
			if err := add(int(2*bi), w16); err != nil {
				return nil, nil, err
			}
			if err := add(int(2*bi+1), t.Coef); err != nil {
				return nil, nil, err
			}
		}
	}
	var uses []windowUse
	out := rest
	keys := make([]key, 0, len(groups))
	for k := range groups {
		keys = append(keys, k)
	}
	sort.Slice(keys, func(i, j int) bool {
		if keys[i].x != keys[j].x {
			return keys[i].x < keys[j].x
		}
		return keys[i].pt < keys[j].pt
	})
	for _, k := range keys {
		g := groups[k]
		minP := 64
		for p := range g.weights {
			if p < minP {
				minP = p
			}
		}
		if minP%2 != 0 {
			return nil, nil, fmt.Errorf("window of %s starts in the middle of a byte", g.X)
		}
		// the point coefficient: every weight must be c * 16^(63-p) for one constant c
		var c *big.Int
		for p := minP; p < 64; p++ {
			w, ok := g.weights[p]
			if !ok {
				return nil, nil, fmt.Errorf("nibble %d (byte %d) of the encoding of %s is never added", p, p/2, g.X)
			}
			base := new(big.Int).Exp(big.NewInt(16), big.NewInt(int64(63-p)), sym.N)
			ci := new(big.Int).Mul(w, new(big.Int).ModInverse(base, sym.N))
			ci.Mod(ci, sym.N)
			if c == nil {
				c = ci
			} else if c.Cmp(ci) != 0 {
				return nil, nil, fmt.Errorf("nibble %d (byte %d) of %s has weight 0x%s, expected 0x%s", p, p/2, g.X, w.Text(16), new(big.Int).Mod(new(big.Int).Mul(c, base), sym.N).Text(16))
			}
		}
		uses = append(uses, windowUse{X: g.X, Pt: g.Pt, PtC: c, Start: minP / 2})
		out = sym.Add(out, sym.Mul(sym.Const(sym.Fn, c), sym.Mul(g.X, g.Pt)))
	}
	return out, uses, nil
}

// boolAtoms collects the conditions of ite nodes inside a term.
func boolAtoms(t *sym.Term, out map[*sym.Term]bool, seen map[*sym.Term]bool) {
	if seen[t] {
		return
	}
	seen[t] = true
	if t.Op == "ite" {
		c := t.Args[0]
		for c.Op == "not" {
			c = c.Args[0]
		}
		out[c] = true
	}
	for _, a := range t.Args {
		boolAtoms(a, out, seen)
	}
}

// equalByCases decides a == b by case analysis over the ite-conditions occurring in a.
func equalByCases(ex *absint.Exec, a, b *sym.Term) (bool, string) {
	atoms := map[*sym.Term]bool{}
	boolAtoms(a, atoms, map[*sym.Term]bool{})
	boolAtoms(b, atoms, map[*sym.Term]bool{})
	var list []*sym.Term
	for t := range atoms {
		list = append(list, t)
	}
	sort.Slice(list, func(i, j int) bool { return list[i].ID < list[j].ID })
	if len(list) > 10 {
		return false, "too many conditions for case analysis"
	}
	for mask := 0; mask < 1<<len(list); mask++ {
		st := ex.NewState()
		var desc []string
		for i, t := range list {
			v := mask&(1<<i) != 0
			st.Assume(t, v, "case")
			desc = append(desc, fmt.Sprintf("%s=%v", t, v))
		}
		// simplification may expose new conditions; iterate a few times
		x, y := a, b
		for k := 0; k < 4; k++ {
			x, y = st.Simplify(x), st.Simplify(y)
		}
		if !sym.Equal(x, y) {
			return false, fmt.Sprintf("case {%s}: got %s, expected %s", strings.Join(desc, ", "), sym.PolyOf(x), sym.PolyOf(y))
		}
	}
	return true, fmt.Sprintf("%d cases", 1<<len(list))
}
