package rules

import (
	"fmt"
	"math/big"
	"sort"
	"strings"

	"verif/internal/absint"
	"verif/internal/sym"
)

// A small linear-constraint domain used to discharge run-time bounds checks
// (index < length, slice bounds, slice-to-array conversions) from the branch
// conditions that dominate them: constraints are sum a_i*x_i + c <= 0 over the
// rationals, the x_i being the non-arithmetic integer subterms (len(s),
// byteat(s,i), ...); entailment is decided by refuting the negated goal with
// Fourier-Motzkin elimination (infeasible over Q implies infeasible over Z).

type linForm struct {
	coef map[*sym.Term]*big.Rat
	c    *big.Rat
}

func newLin() *linForm { return &linForm{coef: map[*sym.Term]*big.Rat{}, c: new(big.Rat)} }

func (l *linForm) clone() *linForm {
	n := newLin()
	n.c.Set(l.c)
	for k, v := range l.coef {
		n.coef[k] = new(big.Rat).Set(v)
	}
	return n
}

func (l *linForm) addScaled(o *linForm, k *big.Rat) {
	l.c.Add(l.c, new(big.Rat).Mul(o.c, k))
	for v, a := range o.coef {
		cur, ok := l.coef[v]
		if !ok {
			cur = new(big.Rat)
			l.coef[v] = cur
		}
		cur.Add(cur, new(big.Rat).Mul(a, k))
		if cur.Sign() == 0 {
			delete(l.coef, v)
		}
	}
}

func (l *linForm) String() string {
	var parts []string
	for v, a := range l.coef {
		parts = append(parts, a.RatString()+"*"+v.String())
	}
	sort.Strings(parts)
	parts = append(parts, l.c.RatString())
	return strings.Join(parts, " + ") + " <= 0"
}

// linOf converts an integer term into a linear form over its non-arithmetic subterms.
func linOf(t *sym.Term) (*linForm, bool) {
	if t.Sort == sym.Bool {
		l := newLin()
		if t.IsConst() {
			l.c.SetInt(t.C)
			return l, true
		}
		l.coef[sym.Canon(t)] = big.NewRat(1, 1)
		return l, true
	}
	if t.Sort != sym.Int {
		return nil, false
	}
	p := sym.PolyOf(t)
	l := newLin()
	for _, m := range p.SortedTerms() {
		switch len(m.Atoms) {
		case 0:
			l.c.Add(l.c, new(big.Rat).SetInt(m.Coef))
		case 1:
			if m.Atoms[0].E.Cmp(big.NewInt(1)) != 0 {
				return nil, false
			}
			v := m.Atoms[0].A
			cur, ok := l.coef[v]
			if !ok {
				cur = new(big.Rat)
				l.coef[v] = cur
			}
			cur.Add(cur, new(big.Rat).SetInt(m.Coef))
		default:
			return nil, false
		}
	}
	return l, true
}

// leq builds a - b + k <= 0.
func leq(a, b *linForm, k int64) *linForm {
	l := a.clone()
	l.addScaled(b, big.NewRat(-1, 1))
	l.c.Add(l.c, big.NewRat(k, 1))
	return l
}

// varBounds returns the intrinsic range constraints of a variable term.
func varBounds(v *sym.Term) []*linForm {
	var out []*linForm
	lo := func(k int64) { // v >= k  <=>  -v + k <= 0
		l := newLin()
		l.coef[v] = big.NewRat(-1, 1)
		l.c.SetInt64(k)
		out = append(out, l)
	}
	hi := func(k int64) { // v <= k
		l := newLin()
		l.coef[v] = big.NewRat(1, 1)
		l.c.SetInt64(-k)
		out = append(out, l)
	}
	switch {
	case v.Sort == sym.Bool:
		lo(0)
		hi(1)
	case v.Op == "byteat" || v.Op == "trunc8":
		lo(0)
		hi(255)
	case v.Op == "len" || (v.Op == "s" && strings.HasPrefix(v.S, "len(")):
		lo(0)
	case v.Op == "and8" || v.Op == "and64" || v.Op == "and32":
		lo(0)
		for _, a := range v.Args {
			if k, ok := a.Int64(); ok && k >= 0 {
				hi(k)
			}
		}
	}
	return out
}

// infeasible decides by Fourier-Motzkin elimination whether the system has no rational solution.
func infeasible(cs []*linForm) bool {
	cur := cs
	for iter := 0; iter < 64; iter++ {
		// constant constraints
		var rest []*linForm
		for _, c := range cur {
			if len(c.coef) == 0 {
				if c.c.Sign() > 0 {
					return true
				}
				continue
			}
			rest = append(rest, c)
		}
		if len(rest) == 0 {
			return false
		}
		// pick the variable with the fewest pos*neg combinations
		count := map[*sym.Term][2]int{}
		for _, c := range rest {
			for v, a := range c.coef {
				k := count[v]
				if a.Sign() > 0 {
					k[0]++
				} else {
					k[1]++
				}
				count[v] = k
			}
		}
		var best *sym.Term
		bestCost := -1
		for v, k := range count {
			cost := k[0] * k[1]
			if bestCost < 0 || cost < bestCost || (cost == bestCost && v.ID < best.ID) {
				best, bestCost = v, cost
			}
		}
		var pos, neg, other []*linForm
		for _, c := range rest {
			a, ok := c.coef[best]
			switch {
			case !ok:
				other = append(other, c)
			case a.Sign() > 0:
				pos = append(pos, c)
			default:
				neg = append(neg, c)
			}
		}
		for _, p := range pos {
			for _, n := range neg {
				// p: a*x + P <= 0 (a>0), n: -b*x + N <= 0 (b>0)  =>  b*P + a*N <= 0
				a := p.coef[best]
				b := new(big.Rat).Neg(n.coef[best])
				c := newLin()
				c.addScaled(p, b)
				c.addScaled(n, a)
				delete(c.coef, best)
				other = append(other, c)
			}
		}
		if len(other) > 4000 {
			return false // give up (not proven)
		}
		cur = other
	}
	return false
}

// guardConstraints turns a path guard into linear constraints; negated equalities are returned
// separately as case splits (each must be refuted in both orders).
func guardConstraints(g []absint.Lit) (cs []*linForm, splits [][2]*linForm, vars map[*sym.Term]bool) {
	vars = map[*sym.Term]bool{}
	note := func(l *linForm) {
		for v := range l.coef {
			vars[v] = true
		}
	}
	for _, lit := range g {
		t := lit.T
		if len(t.Args) != 2 {
			continue
		}
		a, oka := linOf(t.Args[0])
		b, okb := linOf(t.Args[1])
		if !oka || !okb {
			continue
		}
		switch t.Op {
		case "lt":
			if lit.Val {
				c := leq(a, b, 1)
				note(c)
				cs = append(cs, c)
			} else {
				c := leq(b, a, 0)
				note(c)
				cs = append(cs, c)
			}
		case "eq":
			if t.Args[0].Sort != sym.Int && t.Args[0].Sort != sym.Bool {
				continue
			}
			if lit.Val {
				c1, c2 := leq(a, b, 0), leq(b, a, 0)
				note(c1)
				cs = append(cs, c1, c2)
			} else {
				s := [2]*linForm{leq(a, b, 1), leq(b, a, 1)}
				note(s[0])
				splits = append(splits, s)
			}
		}
	}
	return
}

// Entails decides guard |- a (< | <=) b.
func Entails(g []absint.Lit, a, b *sym.Term, strict bool) (bool, string) {
	la, oka := linOf(a)
	lb, okb := linOf(b)
	if !oka || !okb {
		return false, "operands are not linear"
	}
	cs, splits, vars := guardConstraints(g)
	// negated goal: a >= b (strict) / a > b (non-strict)
	var ng *linForm
	if strict {
		ng = leq(lb, la, 0)
	} else {
		ng = leq(lb, la, 1)
	}
	for v := range ng.coef {
		vars[v] = true
	}
	base := append(cs, ng)
	for v := range vars {
		base = append(base, varBounds(v)...)
	}
	if len(splits) > 6 {
		splits = splits[:6]
	}
	n := 1 << len(splits)
	for m := 0; m < n; m++ {
		sys := append([]*linForm(nil), base...)
		for i, s := range splits {
			sys = append(sys, s[(m>>i)&1])
		}
		if !infeasible(sys) {
			return false, fmt.Sprintf("not implied by the %d linear facts of the path condition", len(cs)+len(splits))
		}
	}
	return true, fmt.Sprintf("implied by the path condition (%d linear facts, %d case splits)", len(cs), n)
}

// checkBounds discharges every EvBound event of a run; it returns the number of obligations and the first failure.
func checkBounds(r *Run) (n int, failPos, failMsg string) { return checkBoundsWith(r, nil) }

// checkBoundsWith: as checkBounds, with the path condition of every event extended by the linear consequences of opaque
// atoms (e.g. a predicate replaced by its specification) that axioms derives from it.
func checkBoundsWith(r *Run, axioms func(g []absint.Lit) []absint.Lit) (n int, failPos, failMsg string) {
	for _, e := range r.Ex.Events {
		if e.Kind != absint.EvBound {
			continue
		}
		n++
		g := e.Guard
		if axioms != nil {
			g = axioms(g)
		}
		ok, why := Entails(g, e.Term, e.Bound, e.Strict)
		if !ok && failMsg == "" {
			op := "<="
			if e.Strict {
				op = "<"
			}
			failPos = PosStr(r.Prog, e.Pos)
			failMsg = fmt.Sprintf("bounds check %s %s %s (%s) is %s; path condition {%s}", e.Term, op, e.Bound, e.Msg, why, GuardString(e.Guard))
		}
	}
	return
}
