package rules

import (
	"fmt"
	"go/types"
	"strings"

	"verif/internal/absint"
	"verif/internal/load"
	"verif/internal/models"
	"verif/internal/sym"
)

// protoSet is the specification of everything below the protocol layer
// (secec, secec/bitcoin, secec/h2c): field, scalar ring and the point module.
func protoSet(facts *models.PointFacts) *models.Set {
	return models.NewSet().Merge(models.Field()).Merge(models.Helpers()).Merge(models.Scalar()).Merge(models.PointSpec(facts))
}

// named builds ArgSpecs that give the parameters checker-chosen names (so that
// renaming a parameter in the source does not change any term).
func named(names ...string) []ArgSpec {
	out := make([]ArgSpec, len(names))
	for i, n := range names {
		out[i] = ArgSpec{Name: n, Alias: -1, SameSymsAs: -1}
	}
	return out
}

// isNonNilVal reports whether v is certainly not nil.
func isNonNilVal(v absint.Val) bool {
	switch x := v.(type) {
	case *absint.Ptr:
		return true
	case *absint.Iface:
		return x.NonNil || x.Dyn != nil
	case *absint.SliceVal:
		return x.Base != nil
	}
	return false
}

// exitResult returns result i of an exit.
func exitResult(e absint.Exit, i int) absint.Val {
	res := e.St.Resolve(e.Results)
	if tu, ok := res.(absint.Tuple); ok {
		if i < len(tu) {
			return e.St.Resolve(tu[i])
		}
		return nil
	}
	if i == 0 {
		return res
	}
	return nil
}

// runComplete checks that a run decided everything: no analysis failures, no unmodelled calls, no widened loops.
func runComplete(r *Run) string {
	if r.Err != nil {
		return r.Err.Error()
	}
	if len(r.Ex.Fails) > 0 {
		return "analysis incomplete: " + strings.Join(firstN(r.Ex.Fails, 3), "; ")
	}
	for _, e := range r.Ex.Events {
		switch e.Kind {
		case absint.EvUnmodelled:
			return "call without specification: " + e.Callee + " at " + PosStr(r.Prog, e.Pos)
		case absint.EvWiden:
			return "loop with non-constant trip count widened at " + PosStr(r.Prog, e.Pos)
		}
	}
	return ""
}

// errSplit partitions the returns of a function whose result errIdx is an error:
// accepting (error == nil) and rejecting (error != nil).  A return whose error
// is neither certainly nil nor certainly non-nil makes the split undecided.
func errSplit(r *Run, errIdx int) (acc, rej []absint.Exit, problem string) {
	for _, e := range r.Ex.Returns {
		v := exitResult(e, errIdx)
		switch {
		case isNilVal(v):
			acc = append(acc, e)
		case isNonNilVal(v):
			rej = append(rej, e)
		default:
			return nil, nil, fmt.Sprintf("return at %s has an error result that is neither nil nor non-nil: %s", PosStr(r.Prog, e.Pos), absint.ValString(v))
		}
	}
	return acc, rej, ""
}

// decideAccept compares the accept condition of a (value, error)-style function with the specification.
func decideAccept(c *Ctx, rule, key string, r *Run, errIdx int, spec *Formula, allowedPanics func(p absint.Exit) bool) ([]absint.Exit, bool) {
	pos := PosOf(r.Prog, r.Fn)
	if p := runComplete(r); p != "" {
		c.R.Unknown(rule, key, pos, p)
		return nil, false
	}
	for _, p := range r.Ex.Panics {
		if allowedPanics == nil || !allowedPanics(p) {
			c.R.Fail(rule, key, PosStr(r.Prog, p.Pos), fmt.Sprintf("a panic (%s) is reachable when {%s}", p.Msg, GuardString(p.Guard)))
			return nil, false
		}
	}
	acc, _, prob := errSplit(r, errIdx)
	var code *Formula
	if prob != "" {
		// a return whose error value is merged (the routine forwards the result of a helper that has several returns): the
		// accept condition is read from the merged value (nil under which conditions)
		f, prob2 := acceptFormula(r, errIdx)
		if prob2 != "" {
			c.R.Unknown(rule, key, pos, prob)
			return nil, false
		}
		code, acc = f, nil
	} else {
		code = FExits(acc, func(absint.Exit) bool { return true })
	}
	ok, detail := Equivalent(code, spec)
	if ok {
		c.R.OK(rule, key, pos, "accepts exactly when "+spec.String()+" ("+detail+")")
	} else {
		c.R.Fail(rule, key, pos, "accept condition differs from the specification: "+detail)
	}
	return acc, ok
}

// sameTerm compares a value with an expected term.
func sameTerm(v absint.Val, want *sym.Term) bool {
	t, ok := v.(*sym.Term)
	return ok && t != nil && sym.Equal(t, want)
}

// loadPtrTerm loads the abstract term behind a pointer value in an exit state.
func loadPtrTerm(ex *absint.Exec, st *absint.State, v absint.Val) *sym.Term {
	p, ok := st.Resolve(v).(*absint.Ptr)
	if !ok {
		return nil
	}
	t, _ := st.Resolve(ex.LoadLeaf(st, p)).(*sym.Term)
	if t != nil {
		t = st.Simplify(t)
	}
	return t
}

// fieldPtrTerm loads the term behind the pointer stored in field f of the struct v points to.
func fieldVal(ex *absint.Exec, st *absint.State, v absint.Val, prog *load.Program, pkg, typ, field string) absint.Val {
	p, ok := st.Resolve(v).(*absint.Ptr)
	if !ok {
		return nil
	}
	idx := FieldIndex(prog, pkg, typ, field)
	if idx < 0 {
		return nil
	}
	return st.Resolve(ex.LoadLeaf(st, ex.FieldPtr(p, idx)))
}

// A byte-string field of a key or generator object may be a []byte, a [N]byte or a *[N]byte: the rules build and read
// it through these helpers so that they do not depend on the representation chosen.

// fieldByteRep: 0 = []byte (or anything else), 1 = [N]byte, 2 = *[N]byte; n = N.
func fieldByteRep(prog *load.Program, pkg, typ string, idx int) (rep, n int) {
	p := prog.ByPath[pkg]
	if p == nil {
		return 0, 0
	}
	o := p.Types.Scope().Lookup(typ)
	if o == nil {
		return 0, 0
	}
	st, ok := o.Type().Underlying().(*types.Struct)
	if !ok || idx < 0 || idx >= st.NumFields() {
		return 0, 0
	}
	ft := st.Field(idx).Type().Underlying()
	rep = 1
	if pt, ok := ft.(*types.Pointer); ok {
		ft, rep = pt.Elem().Underlying(), 2
	}
	if a, ok := ft.(*types.Array); ok {
		if b, ok := a.Elem().Underlying().(*types.Basic); ok && b.Kind() == types.Uint8 {
			return rep, int(a.Len())
		}
	}
	return 0, 0
}

func fieldIsByteArray(prog *load.Program, pkg, typ string, idx int) int {
	if rep, n := fieldByteRep(prog, pkg, typ, idx); rep == 1 {
		return n
	}
	return 0
}

// storeBytesField puts the byte string t into such a field; the returned slice value views the storage created for it
// (nil for an in-place array).
func storeBytesField(ex *absint.Exec, st *absint.State, p *absint.Ptr, prog *load.Program, pkg, typ string, idx int, t *sym.Term, name string) *absint.SliceVal {
	switch rep, n := fieldByteRep(prog, pkg, typ, idx); rep {
	case 1:
		ex.WriteArray(st, ex.FieldPtr(p, idx), t, n)
		return nil
	case 2:
		sv := ex.BytesToSlice(st, t, name)
		ex.StoreLeaf(st, ex.FieldPtr(p, idx), ex.SliceToArrayPtr(sv), 0)
		return sv
	}
	sv := ex.BytesToSlice(st, t, name)
	ex.StoreLeaf(st, ex.FieldPtr(p, idx), sv, 0)
	return sv
}

// bytesFieldVal converts the value loaded from such a field into a slice value (choices are kept).
func bytesFieldVal(ex *absint.Exec, prog *load.Program, pkg, typ string, idx int, v absint.Val) absint.Val {
	rep, n := fieldByteRep(prog, pkg, typ, idx)
	if rep != 2 {
		return v
	}
	switch x := v.(type) {
	case *absint.Ptr:
		return ex.ArrayPtrToSlice(x, n)
	case *absint.Choice:
		return &absint.Choice{Cond: x.Cond, A: bytesFieldVal(ex, prog, pkg, typ, idx, x.A), B: bytesFieldVal(ex, prog, pkg, typ, idx, x.B)}
	}
	return v
}

// loadBytesField reads such a field back as a byte string (nil: not a byte string).
func loadBytesField(ex *absint.Exec, st *absint.State, p *absint.Ptr, prog *load.Program, pkg, typ string, idx int) *sym.Term {
	if n := fieldIsByteArray(prog, pkg, typ, idx); n > 0 {
		return ex.ReadArray(st, ex.FieldPtr(p, idx), n)
	}
	sv, _ := bytesFieldVal(ex, prog, pkg, typ, idx, st.Resolve(ex.LoadLeaf(st, ex.FieldPtr(p, idx)))).(*absint.SliceVal)
	if sv == nil {
		return nil
	}
	return ex.SliceBytes(st, sv)
}

// bytesField is fieldVal for a byte-string field: the value as a slice (or a choice of slices).
func bytesField(ex *absint.Exec, st *absint.State, v absint.Val, prog *load.Program, pkg, typ, field string) absint.Val {
	idx := FieldIndex(prog, pkg, typ, field)
	if p, ok := st.Resolve(v).(*absint.Ptr); ok {
		if n := fieldIsByteArray(prog, pkg, typ, idx); n > 0 {
			return ex.ArrayPtrToSlice(ex.FieldPtr(p, idx), n)
		}
	}
	return bytesFieldVal(ex, prog, pkg, typ, idx, fieldVal(ex, st, v, prog, pkg, typ, field))
}

// symFn / symPt / symBytes / symLen build the symbols the abstract interpreter gives to named parameters.
func symFn(name string) *sym.Term    { return sym.Sym(sym.Fn, name) }
func symPt(name string) *sym.Term    { return sym.Sym(sym.Point, name) }
func symBytes(name string) *sym.Term { return sym.Sym(sym.Bytes, name) }
func symLen(name string) *sym.Term   { return sym.Sym(sym.Int, "len("+name+")") }

var fnZero = sym.Const(sym.Fn, bigInt(0))

// termDiff descends into two terms of the same shape and renders the smallest differing subterms.
func termDiff(a, b *sym.Term) string {
	a, b = sym.Canon(a), sym.Canon(b)
	for depth := 0; depth < 200; depth++ {
		if a == b {
			return "identical"
		}
		if a.Op != b.Op || len(a.Args) != len(b.Args) || len(a.Args) == 0 {
			break
		}
		var da, db *sym.Term
		n := 0
		for i := range a.Args {
			if a.Args[i] != b.Args[i] {
				da, db = a.Args[i], b.Args[i]
				n++
			}
		}
		if n == 0 {
			break
		}
		// descend into the last differing argument
		a, b = da, db
	}
	return clip(a.String(), 400) + "   VERSUS   " + clip(b.String(), 400)
}

// indexSafety discharges the run-time bounds checks of a run (slice bounds, indices, slice-to-array conversions whose
// operands constant propagation did not settle) from the path condition; a caller's slice is only known to have a
// capacity of at least its length.  A check that does not follow is a reachable panic for some input.
func indexSafety(c *Ctx, rule, key, pos string, r *Run) {
	n, fpos, fmsg := checkBounds(r)
	if fmsg != "" {
		c.R.Fail(rule, key+"/index-safety", fpos, "a slice / index / conversion may be out of range: "+fmsg)
		return
	}
	c.R.OK(rule, key+"/index-safety", pos, fmt.Sprintf("%d run-time bounds checks follow from the path conditions", n))
}
