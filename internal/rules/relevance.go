package rules

import (
	"bufio"
	"go/ast"
	"go/types"
	"os"
	"path/filepath"
	"regexp"
	"sort"
	"strconv"
	"strings"

	"golang.org/x/tools/go/ssa"

	"verif/internal/check"
	"verif/internal/load"
)

// Relevance decides which obligations of a lower layer belong in the report of a property that rests on
// that layer: an obligation about function F is relevant to property P iff F is reachable, in the resolved
// call graph of the tree under analysis, from the functions P's own rules are about.  (A defect in a
// lower-layer routine that P's code never calls does not break P and must not be reported by P's check.)
type Relevance struct {
	prog    *load.Program
	byFile  map[string][]funcSpan // file (relative to the tree) -> declared functions
	asmText map[string][]asmSpan  // assembly file -> TEXT symbols (sorted by line)
	reach   map[*ssa.Function]bool
	methods map[types.Type][]*ssa.Function
}

type funcSpan struct {
	from, to int
	fn       *ssa.Function
}

type asmSpan struct {
	line int
	fn   *ssa.Function
}

var reText = regexp.MustCompile(`^TEXT\s+·([A-Za-z0-9_]+)\(SB\)`)

// NewRelevance indexes the declarations of the module.
func NewRelevance(prog *load.Program) *Relevance {
	r := &Relevance{prog: prog, byFile: map[string][]funcSpan{}, asmText: map[string][]asmSpan{}, reach: map[*ssa.Function]bool{}}
	fset := prog.SSA.Fset
	for _, pkg := range prog.Pkgs {
		for _, f := range pkg.Syntax {
			fname := rel(prog, fset.Position(f.Pos()).Filename)
			for _, d := range f.Decls {
				fd, ok := d.(*ast.FuncDecl)
				if !ok {
					continue
				}
				obj, _ := pkg.TypesInfo.Defs[fd.Name].(*types.Func)
				if obj == nil {
					continue
				}
				fn := prog.SSA.FuncValue(obj)
				if fn == nil {
					continue
				}
				r.byFile[fname] = append(r.byFile[fname], funcSpan{fset.Position(fd.Pos()).Line, fset.Position(fd.End()).Line, fn})
			}
		}
		// assembly files of the package: TEXT ·name(SB) implements the Go declaration of the same name
		for _, of := range pkg.OtherFiles {
			if !strings.HasSuffix(of, ".s") {
				continue
			}
			fh, err := os.Open(of)
			if err != nil {
				continue
			}
			sc := bufio.NewScanner(fh)
			sc.Buffer(make([]byte, 1<<20), 1<<20)
			ln := 0
			for sc.Scan() {
				ln++
				if m := reText.FindStringSubmatch(sc.Text()); m != nil {
					if obj, ok := pkg.Types.Scope().Lookup(m[1]).(*types.Func); ok {
						if fn := prog.SSA.FuncValue(obj); fn != nil {
							r.asmText[rel(prog, of)] = append(r.asmText[rel(prog, of)], asmSpan{ln, fn})
						}
					}
				}
			}
			fh.Close()
		}
	}
	return r
}

// Subject returns the function an obligation position lies in (nil: package level, unknown file, or no position).
func (r *Relevance) Subject(pos string) *ssa.Function {
	i := strings.LastIndex(pos, ":")
	if i < 0 {
		return nil
	}
	line, err := strconv.Atoi(pos[i+1:])
	if err != nil {
		return nil
	}
	file := strings.TrimPrefix(pos[:i], r.prog.Dir+"/")
	if filepath.IsAbs(file) {
		// positions recorded against another root (e.g. /repo/...): match by suffix
		for k := range r.byFile {
			if strings.HasSuffix(file, "/"+k) {
				file = k
				break
			}
		}
	}
	for _, s := range r.byFile[file] {
		if s.from <= line && line <= s.to {
			return s.fn
		}
	}
	var best *ssa.Function
	for _, s := range r.asmText[file] {
		if s.line <= line {
			best = s.fn
		}
	}
	return best
}

// AddRoot marks fn and everything it can call as relevant.
func (r *Relevance) AddRoot(fn *ssa.Function) {
	if fn == nil || r.reach[fn] {
		return
	}
	work := []*ssa.Function{fn}
	push := func(f *ssa.Function) {
		if f == nil || r.reach[f] {
			return
		}
		if !inModule(f) {
			return
		}
		r.reach[f] = true
		work = append(work, f)
	}
	r.reach[fn] = true
	for len(work) > 0 {
		f := work[len(work)-1]
		work = work[:len(work)-1]
		for _, a := range f.AnonFuncs {
			push(a)
		}
		for _, b := range f.Blocks {
			for _, ins := range b.Instrs {
				// functions used as values or called directly
				for _, op := range ins.Operands(nil) {
					if op == nil || *op == nil {
						continue
					}
					switch g := (*op).(type) {
					case *ssa.Function:
						push(g)
					case *ssa.Global:
						// a package-level variable is computed by its package's initialiser
						if g.Pkg != nil && load.IsModulePkg(g.Pkg.Pkg.Path()) {
							push(g.Pkg.Func("init"))
						}
					}
				}
				switch x := ins.(type) {
				case *ssa.MakeInterface:
					// a module value that escapes into an interface may have any of its methods invoked (by the
					// library or through the interface)
					r.pushMethods(x.X.Type(), push)
				case ssa.CallInstruction:
					c := x.Common()
					if c.IsInvoke() {
						r.pushImplementations(c.Method, push)
					}
				}
			}
		}
	}
}

// inModule reports whether f (or the function it is nested in / instantiated from) is declared in the module.
func inModule(f *ssa.Function) bool {
	for f.Parent() != nil {
		f = f.Parent()
	}
	if f.Origin() != nil {
		f = f.Origin()
	}
	return f.Pkg != nil && load.IsModulePkg(f.Pkg.Pkg.Path())
}

func (r *Relevance) pushMethods(t types.Type, push func(*ssa.Function)) {
	ms := r.prog.SSA.MethodSets.MethodSet(t)
	for i := 0; i < ms.Len(); i++ {
		if f := r.prog.SSA.MethodValue(ms.At(i)); f != nil && f.Pkg != nil && load.IsModulePkg(f.Pkg.Pkg.Path()) {
			push(f)
		}
	}
}

// pushImplementations: class-hierarchy resolution of an interface method call, restricted to the module's types.
func (r *Relevance) pushImplementations(m *types.Func, push func(*ssa.Function)) {
	for _, pkg := range r.prog.Pkgs {
		sc := pkg.Types.Scope()
		for _, n := range sc.Names() {
			tn, ok := sc.Lookup(n).(*types.TypeName)
			if !ok || tn.IsAlias() {
				continue
			}
			for _, t := range []types.Type{tn.Type(), types.NewPointer(tn.Type())} {
				ms := r.prog.SSA.MethodSets.MethodSet(t)
				for i := 0; i < ms.Len(); i++ {
					if ms.At(i).Obj().Name() == m.Name() && types.Identical(ms.At(i).Type().(*types.Signature).Params(), m.Type().(*types.Signature).Params()) {
						push(r.prog.SSA.MethodValue(ms.At(i)))
					}
				}
			}
		}
	}
}

// AddConstructorsOfOperands: a property about operations on key objects quantifies over every key the API
// can produce, so the functions that construct the operand types of the roots added so far (module functions with a
// result of that pointer type, declared in the type's package) are relevant too.
func (r *Relevance) AddConstructorsOfOperands() {
	want := map[*types.TypeName]bool{}
	for f := range r.reach {
		if f.Signature == nil || f.Parent() != nil {
			continue
		}
		var ps []*types.Var
		if rv := f.Signature.Recv(); rv != nil {
			ps = append(ps, rv)
		}
		for i := 0; i < f.Signature.Params().Len(); i++ {
			ps = append(ps, f.Signature.Params().At(i))
		}
		for _, p := range ps {
			if pt, ok := p.Type().Underlying().(*types.Pointer); ok {
				if nt, ok := pt.Elem().(*types.Named); ok && nt.Obj().Pkg() != nil && load.IsModulePkg(nt.Obj().Pkg().Path()) {
					// key objects (protocol packages): their cross-field invariants (scalar / point / cached encoding) are
					// established by their constructors only; points and scalars are decided on symbolic values directly
					if _, isStruct := nt.Underlying().(*types.Struct); isStruct && strings.Contains(nt.Obj().Pkg().Path(), "/secec") {
						want[nt.Obj()] = true
					}
				}
			}
		}
	}
	var ctors []*ssa.Function
	for _, pkg := range r.prog.Pkgs {
		sp := r.prog.SSAPkgs[pkg.PkgPath]
		if sp == nil {
			continue
		}
		for _, m := range sp.Members {
			f, ok := m.(*ssa.Function)
			if !ok || f.Signature == nil {
				continue
			}
			res := f.Signature.Results()
			for i := 0; i < res.Len(); i++ {
				if pt, ok := res.At(i).Type().Underlying().(*types.Pointer); ok {
					if nt, ok := pt.Elem().(*types.Named); ok && want[nt.Obj()] && nt.Obj().Pkg() == pkg.Types {
						ctors = append(ctors, f)
					}
				}
			}
		}
	}
	sort.Slice(ctors, func(i, j int) bool { return ctors[i].String() < ctors[j].String() })
	for _, f := range ctors {
		r.AddRoot(f)
	}
}

// Relevant reports whether an obligation of a lower layer concerns this property.  Obligations that are not
// about one function (constants, type-level rules, tables, controls of the lower layer) are always relevant.
func (r *Relevance) Relevant(o check.Obligation) bool {
	fn := r.Subject(o.Pos)
	if fn == nil {
		return true
	}
	return r.reach[fn]
}

// ReachedNames lists the relevant functions (sorted; for the evidence).
func (r *Relevance) ReachedNames() []string {
	var out []string
	for f := range r.reach {
		if f.Pkg != nil && load.IsModulePkg(f.Pkg.Pkg.Path()) && f.Parent() == nil {
			out = append(out, f.String())
		}
	}
	sort.Strings(out)
	return out
}
