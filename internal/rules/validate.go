package rules

import (
	"fmt"
	"go/types"
	"sort"
	"strings"

	"golang.org/x/tools/go/ssa"

	"verif/internal/absint"
	"verif/internal/load"
	"verif/internal/models"
	"verif/internal/sym"
)

// ringArg describes how ring-typed operands are laid out at a layer.
type ringLayer struct {
	set      *models.Set
	ringType string // qualified named type of the ring element (e.g. field.Element)
	sort     sym.Sort
	path     []int // field path from the object to its abstract leaf (nil = the object itself)
}

type builtArgs struct {
	vals  []absint.Val
	rings map[int]*absint.Ptr // parameter index -> pointer to ring object
	bufs  map[int]bufArg      // parameter index -> caller-provided byte array (output buffers are observable)
}

type bufArg struct {
	p *absint.Ptr
	n int
}

func namedOf(t types.Type) string {
	if p, ok := t.(*types.Pointer); ok {
		t = p.Elem()
	}
	if n, ok := t.(*types.Named); ok && n.Obj().Pkg() != nil {
		return n.Obj().Pkg().Path() + "." + n.Obj().Name()
	}
	return ""
}

// buildRingArgs creates symbolic arguments with layer-independent symbol names.
// alias[i] = j makes parameter i the same object as parameter j.
func buildRingArgs(ex *absint.Exec, st *absint.State, fn *ssa.Function, l ringLayer, alias map[int]int, sliceLen map[int]int, consts map[int]absint.Val) builtArgs {
	b := builtArgs{rings: map[int]*absint.Ptr{}, bufs: map[int]bufArg{}}
	for i, p := range fn.Params {
		if v, ok := consts[i]; ok {
			b.vals = append(b.vals, v)
			continue
		}
		if j, ok := alias[i]; ok {
			b.vals = append(b.vals, b.vals[j])
			if r, ok := b.rings[j]; ok {
				b.rings[i] = r
			}
			continue
		}
		name := p.Name()
		t := p.Type()
		switch {
		case namedOf(t) == l.ringType && isPtr(t):
			v := ex.SymParam(t, name, 0).(*absint.Ptr)
			leaf := &absint.Ptr{Obj: v.Obj}
			for _, f := range l.path {
				leaf.Path = append(leaf.Path, absint.Step{Field: f})
			}
			ex.StoreLeaf(st, leaf, sym.Sym(l.sort, name), 0)
			b.vals = append(b.vals, v)
			b.rings[i] = v
		case isByteArrayPtr(t) > 0:
			n := isByteArrayPtr(t)
			bp := ex.ByteArrayPtr(st, absint.SymBytes(name, n, 0), name)
			b.vals = append(b.vals, bp)
			b.bufs[i] = bufArg{bp, n}
		case isByteSlice(t):
			if n, ok := sliceLen[i]; ok {
				b.vals = append(b.vals, ex.BytesToSlice(st, absint.SymBytes(name, n, 0), name))
			} else {
				b.vals = append(b.vals, ex.SymParam(t, name, 0))
			}
		default:
			if sl, ok := t.Underlying().(*types.Slice); ok && namedOf(sl.Elem()) == l.ringType {
				// slice of ring pointers with a fixed length
				n := sliceLen[i]
				at := types.NewArray(sl.Elem(), int64(n))
				arr := ex.Alloc(at, name, nil, absint.Origin{Kind: "param", Root: name})
				for k := 0; k < n; k++ {
					ev := ex.SymParam(sl.Elem(), fmt.Sprintf("%s%d", name, k), 0).(*absint.Ptr)
					leaf := &absint.Ptr{Obj: ev.Obj}
					for _, f := range l.path {
						leaf.Path = append(leaf.Path, absint.Step{Field: f})
					}
					ex.StoreLeaf(st, leaf, sym.Sym(l.sort, fmt.Sprintf("%s%d", name, k)), 0)
					ex.Store(st, &absint.Ptr{Obj: arr.Obj, Path: []absint.Step{{Field: -1, Index: sym.ConstI(int64(k))}}}, ev, sl.Elem())
				}
				b.vals = append(b.vals, &absint.SliceVal{Base: &absint.Ptr{Obj: arr.Obj, Path: []absint.Step{{Field: -1, Index: sym.ConstI(0)}}}, Len: sym.ConstI(int64(n)), Cap: sym.ConstI(int64(n))})
				continue
			}
			b.vals = append(b.vals, ex.SymParam(t, name, 0))
		}
	}
	return b
}

func isPtr(t types.Type) bool { _, ok := t.Underlying().(*types.Pointer); return ok }

func isByteArrayPtr(t types.Type) int {
	p, ok := t.Underlying().(*types.Pointer)
	if !ok {
		return 0
	}
	a, ok := p.Elem().Underlying().(*types.Array)
	if !ok {
		return 0
	}
	if b, ok := a.Elem().Underlying().(*types.Basic); ok && b.Kind() == types.Uint8 {
		return int(a.Len())
	}
	return 0
}

func isByteSlice(t types.Type) bool {
	s, ok := t.Underlying().(*types.Slice)
	if !ok {
		return false
	}
	b, ok := s.Elem().Underlying().(*types.Basic)
	return ok && b.Kind() == types.Uint8
}

// observation is a layer-independent rendering of everything a call makes observable.
type observation struct {
	items []string
}

func (o *observation) add(k, v string) { o.items = append(o.items, k+" = "+v) }

func renderVal(ex *absint.Exec, st *absint.State, v absint.Val, b builtArgs, l ringLayer) string {
	v = st.Resolve(v)
	switch x := v.(type) {
	case nil:
		return "<none>"
	case *sym.Term:
		return sym.Canon(st.Simplify(x)).String()
	case *absint.Ptr:
		idx := []int{}
		for i, r := range b.rings {
			if r.Obj == x.Obj {
				idx = append(idx, i)
			}
		}
		sort.Ints(idx)
		if len(idx) > 0 {
			return fmt.Sprintf("param%d", idx[0])
		}
		if namedOf(x.Obj.Typ) == l.ringType || x.Obj.Typ == nil {
			// a freshly allocated element: its value is observable too (a constructor that returns a fresh object holding
			// the wrong value must differ from its specification)
			if len(x.Path) == 0 {
				leaf := &absint.Ptr{Obj: x.Obj}
				for _, f := range l.path {
					leaf.Path = append(leaf.Path, absint.Step{Field: f})
				}
				if t, ok := st.Resolve(ex.LoadLeaf(st, leaf)).(*sym.Term); ok && t != nil {
					if t.Sort != l.sort {
						// the layer cannot express the content as a ring element (e.g. limbs held in a representation it
						// reads as an opaque aggregate): the value is not compared for this result
						return "fresh-ring(?)"
					}
					return "fresh-ring(" + sym.Canon(st.Simplify(t)).String() + ")"
				}
			}
			return "fresh-ring"
		}
		return "ptr:" + x.Obj.Name
	case *absint.SliceVal:
		if x.Base == nil {
			return "nil-slice"
		}
		return "bytes:" + sym.Canon(ex.ReadBytesSym(st, x)).String()
	case *absint.Choice:
		return fmt.Sprintf("choice(%s, %s, %s)", sym.Canon(x.Cond), renderVal(ex, st, x.A, b, l), renderVal(ex, st, x.B, b, l))
	case absint.Tuple:
		var parts []string
		for _, e := range x {
			parts = append(parts, renderVal(ex, st, e, b, l))
		}
		return "(" + strings.Join(parts, ", ") + ")"
	case *absint.Iface:
		if x.Opaque != nil {
			return "iface:nonnil"
		}
		if x.Dyn == nil {
			return "iface:nil"
		}
		return "iface:nonnil"
	case absint.Nil:
		return "nil"
	}
	return absint.ValString(v)
}

func observe(ex *absint.Exec, out absint.Outcome, b builtArgs, l ringLayer, panics []absint.Exit) observation {
	var o observation
	if out.Ret == nil {
		o.add("returns", "never")
	} else {
		st := out.Ret.St
		o.add("result", renderVal(ex, st, out.Ret.Results, b, l))
		idx := []int{}
		for i := range b.rings {
			idx = append(idx, i)
		}
		sort.Ints(idx)
		seen := map[*absint.Obj]bool{}
		for _, i := range idx {
			r := b.rings[i]
			if seen[r.Obj] {
				continue
			}
			seen[r.Obj] = true
			leaf := &absint.Ptr{Obj: r.Obj}
			for _, f := range l.path {
				leaf.Path = append(leaf.Path, absint.Step{Field: f})
			}
			o.add(fmt.Sprintf("param%d", i), renderVal(ex, st, ex.LoadLeaf(st, leaf), b, l))
		}
		// contents of caller-provided byte buffers after the call
		bidx := []int{}
		for i := range b.bufs {
			bidx = append(bidx, i)
		}
		sort.Ints(bidx)
		for _, i := range bidx {
			o.add(fmt.Sprintf("buffer%d", i), sym.Canon(st.Simplify(ex.ReadArray(st, b.bufs[i].p, b.bufs[i].n))).String())
		}
	}
	var ps []string
	for _, p := range panics {
		ps = append(ps, GuardString(p.Guard))
	}
	sort.Strings(ps)
	o.add("panics-when", strings.Join(ps, " | "))
	return o
}

// validateModel checks that the upper layer's specification of fname is what
// its body computes when analysed against the lower layer.
func validateModel(c *Ctx, rule string, prog *load.Program, lower, upper ringLayer, fname string, alias map[int]int, sliceLen map[int]int, consts map[int]absint.Val, keySuffix string) bool {
	key := "model/" + strings.TrimPrefix(strings.TrimPrefix(fname, "(*"+models.Mod), models.Mod) + keySuffix
	var obs [2]observation
	var pos string
	for li, l := range []ringLayer{lower, upper} {
		cfg := &absint.Config{Prog: prog}
		l.set.Apply(cfg)
		ex := absint.New(cfg)
		fn := ex.Func(fname)
		if fn == nil {
			c.R.Unknown(rule, key, "", "function not found: "+fname)
			return false
		}
		pos = PosOf(prog, fn)
		st := ex.NewState()
		b := buildRingArgs(ex, st, fn, l, alias, sliceLen, consts)
		var out absint.Outcome
		var err error
		if li == 0 {
			out, err = ex.Call(st, fn, b.vals)
		} else {
			out, err = ex.CallModel(st, fn, b.vals)
		}
		if err != nil || len(ex.Fails) > 0 {
			msg := ""
			if err != nil {
				msg = err.Error()
			} else {
				msg = strings.Join(firstN(ex.Fails, 2), "; ")
			}
			c.R.Unknown(rule, key, pos, fmt.Sprintf("layer %d analysis incomplete: %s", li, msg))
			return false
		}
		for _, e := range ex.Events {
			if e.Kind == absint.EvUnmodelled || e.Kind == absint.EvWiden {
				c.R.Unknown(rule, key, pos, fmt.Sprintf("layer %d: %s %s", li, e.Callee, e.Msg))
				return false
			}
		}
		if fn.Signature.Results().Len() == 0 && out.Ret != nil {
			// nothing is returned by the code; what the specification would hand back is not observable
			out.Ret.Results = nil
		}
		obs[li] = observe(ex, out, b, l, ex.Panics)
	}
	a, b := obs[0].items, obs[1].items
	if len(a) != len(b) {
		c.R.Fail(rule, key, pos, fmt.Sprintf("different observables: code %v, specification %v", a, b))
		return false
	}
	for i := range a {
		if a[i] != b[i] && (strings.Contains(a[i], "fresh-ring(?)") || strings.Contains(b[i], "fresh-ring(?)")) {
			a[i], b[i] = stripFreshValues(a[i]), stripFreshValues(b[i])
		}
		if a[i] != b[i] {
			c.R.Fail(rule, key, pos, fmt.Sprintf("code computes {%s} but the specification used by the upper layers says {%s}", a[i], b[i]))
			return false
		}
	}
	c.R.OK(rule, key, pos, strings.Join(a, "; "))
	return true
}

// stripFreshValues replaces every "fresh-ring(<balanced text>)" by "fresh-ring".
func stripFreshValues(s string) string {
	const tag = "fresh-ring("
	var b strings.Builder
	for {
		i := strings.Index(s, tag)
		if i < 0 {
			b.WriteString(s)
			return b.String()
		}
		b.WriteString(s[:i])
		b.WriteString("fresh-ring")
		depth, j := 1, i+len(tag)
		for j < len(s) && depth > 0 {
			switch s[j] {
			case '(':
				depth++
			case ')':
				depth--
			}
			j++
		}
		s = s[j:]
	}
}
