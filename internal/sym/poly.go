package sym

import (
	"fmt"
	"math/big"
	"sort"
	"strings"
)

// AtomPow is an atom raised to a positive power.
type AtomPow struct {
	A *Term
	E *big.Int
}

// PTerm is one monomial with its coefficient.
type PTerm struct {
	Coef  *big.Int
	Atoms []AtomPow // sorted by atom ID
	key   string
}

// Poly is a sparse polynomial in canonical atoms with coefficients in Z or Z/m.
type Poly struct {
	Sort  Sort
	Terms map[string]*PTerm
	// Opaque is set when normalisation was abandoned (size cap); the polynomial then
	// consists of the single atom of the original term.
	Opaque bool
}

// MaxPolyTerms bounds normal-form size; beyond it a term is treated as an atom.
var MaxPolyTerms = 60000

func monoKey(atoms []AtomPow) string {
	var b strings.Builder
	for _, a := range atoms {
		fmt.Fprintf(&b, "%d^%s.", a.A.ID, a.E.Text(16))
	}
	return b.String()
}

func newPoly(s Sort) *Poly { return &Poly{Sort: s, Terms: map[string]*PTerm{}} }

func (p *Poly) addTerm(coef *big.Int, atoms []AtomPow) {
	if coef.Sign() == 0 {
		return
	}
	k := monoKey(atoms)
	m := Modulus(p.Sort)
	if t, ok := p.Terms[k]; ok {
		c := new(big.Int).Add(t.Coef, coef)
		if m != nil {
			c.Mod(c, m)
		}
		if c.Sign() == 0 {
			delete(p.Terms, k)
		} else {
			t.Coef = c
		}
		return
	}
	c := new(big.Int).Set(coef)
	if m != nil {
		c.Mod(c, m)
		if c.Sign() == 0 {
			return
		}
	}
	p.Terms[k] = &PTerm{Coef: c, Atoms: atoms, key: k}
}

func mulAtoms(a, b []AtomPow) []AtomPow {
	out := make([]AtomPow, 0, len(a)+len(b))
	i, j := 0, 0
	for i < len(a) && j < len(b) {
		switch {
		case a[i].A.ID < b[j].A.ID:
			out = append(out, a[i])
			i++
		case a[i].A.ID > b[j].A.ID:
			out = append(out, b[j])
			j++
		default:
			out = append(out, AtomPow{a[i].A, new(big.Int).Add(a[i].E, b[j].E)})
			i++
			j++
		}
	}
	out = append(out, a[i:]...)
	out = append(out, b[j:]...)
	return out
}

func polyMul(s Sort, a, b *Poly) *Poly {
	r := newPoly(s)
	if len(a.Terms)*len(b.Terms) > MaxPolyTerms*4 {
		r.Opaque = true
		return r
	}
	for _, x := range a.Terms {
		for _, y := range b.Terms {
			r.addTerm(new(big.Int).Mul(x.Coef, y.Coef), mulAtoms(x.Atoms, y.Atoms))
		}
	}
	if len(r.Terms) > MaxPolyTerms {
		r.Opaque = true
	}
	return r
}

func atomPoly(s Sort, t *Term) *Poly {
	r := newPoly(s)
	r.addTerm(big.NewInt(1), []AtomPow{{t, big.NewInt(1)}})
	return r
}

// PolyOf returns the polynomial normal form of t (memoised).
func PolyOf(t *Term) *Poly {
	if t.poly != nil {
		return t.poly
	}
	p := polyOf(t)
	if p.Opaque {
		p = atomPoly(t.Sort, canonApp(t))
	}
	t.poly = p
	return p
}

func retag(p *Poly, s Sort) *Poly {
	if p.Sort == s {
		return p
	}
	r := newPoly(s)
	for _, t := range p.Terms {
		r.addTerm(t.Coef, t.Atoms)
	}
	return r
}

func polyOf(t *Term) *Poly {
	switch {
	case t.Op == "tainted":
		return PolyOf(t.Args[0])
	case t.IsConst() && (ringSort(t.Sort) || t.Sort == Bool):
		r := newPoly(t.Sort)
		r.addTerm(t.C, nil)
		return r
	case !ringSort(t.Sort):
		return atomPoly(t.Sort, Canon(t))
	}
	switch t.Op {
	case "+":
		r := newPoly(t.Sort)
		for _, a := range t.Args {
			pa := PolyOf(a)
			for _, x := range pa.Terms {
				r.addTerm(x.Coef, x.Atoms)
			}
		}
		return r
	case "neg":
		r := newPoly(t.Sort)
		for _, x := range PolyOf(t.Args[0]).Terms {
			r.addTerm(new(big.Int).Neg(x.Coef), x.Atoms)
		}
		return r
	case "*":
		r := newPoly(t.Sort)
		r.addTerm(big.NewInt(1), nil)
		for _, a := range t.Args {
			r = polyMul(t.Sort, r, retag(PolyOf(a), t.Sort))
			if r.Opaque {
				return r
			}
		}
		return r
	case "pow":
		base := PolyOf(t.Args[0])
		e := t.Args[1].C
		if len(base.Terms) == 1 {
			r := newPoly(t.Sort)
			for _, x := range base.Terms {
				atoms := make([]AtomPow, len(x.Atoms))
				for i, a := range x.Atoms {
					atoms[i] = AtomPow{a.A, new(big.Int).Mul(a.E, e)}
				}
				var c *big.Int
				if m := Modulus(t.Sort); m != nil {
					c = new(big.Int).Exp(x.Coef, e, m)
				} else if e.BitLen() < 16 {
					c = new(big.Int).Exp(x.Coef, e, nil)
				} else {
					c = nil
				}
				if c == nil {
					return atomPoly(t.Sort, canonApp(t))
				}
				r.addTerm(c, atoms)
			}
			return r
		}
		if len(base.Terms) == 0 {
			return newPoly(t.Sort)
		}
		if e.BitLen() <= 4 {
			r := newPoly(t.Sort)
			r.addTerm(big.NewInt(1), nil)
			for i := int64(0); i < e.Int64(); i++ {
				r = polyMul(t.Sort, r, base)
				if r.Opaque {
					return r
				}
			}
			return r
		}
		return atomPoly(t.Sort, canonApp(t))
	case "ite":
		// distribute only when trivially decidable; otherwise an atom.
		return atomPoly(t.Sort, canonApp(t))
	}
	return atomPoly(t.Sort, canonApp(t))
}

func canonApp(t *Term) *Term {
	if len(t.Args) == 0 {
		return t
	}
	args := make([]*Term, len(t.Args))
	same := true
	for i, a := range t.Args {
		args[i] = Canon(a)
		if args[i] != a {
			same = false
		}
	}
	if same {
		return t
	}
	if t.Op == "ite" {
		return Ite(args[0], args[1], args[2])
	}
	return App(t.Sort, t.Op, args...)
}

// Canon returns the canonical representative of t: ring-sorted subterms are
// rebuilt from their polynomial normal form, applications recursively.
func Canon(t *Term) *Term {
	if t.canon != nil {
		return t.canon
	}
	var c *Term
	switch {
	case t.Op == "tainted":
		c = Canon(t.Args[0])
	case len(t.Args) == 0:
		c = t
	case ringSort(t.Sort) && (t.Op == "+" || t.Op == "*" || t.Op == "neg" || t.Op == "pow"):
		c = FromPoly(PolyOf(t))
	default:
		c = canonApp(t)
	}
	t.canon = c
	if c.canon == nil {
		c.canon = c
	}
	return c
}

// SortedTerms returns the monomials in a deterministic order.
func (p *Poly) SortedTerms() []*PTerm {
	out := make([]*PTerm, 0, len(p.Terms))
	for _, t := range p.Terms {
		out = append(out, t)
	}
	sort.Slice(out, func(i, j int) bool { return out[i].key < out[j].key })
	return out
}

// FromPoly rebuilds a term from a polynomial deterministically.
func FromPoly(p *Poly) *Term {
	terms := p.SortedTerms()
	if len(terms) == 0 {
		return Const(p.Sort, big.NewInt(0))
	}
	var sum []*Term
	for _, t := range terms {
		var fac []*Term
		if t.Coef.Cmp(big.NewInt(1)) != 0 || len(t.Atoms) == 0 {
			cs := p.Sort
			if cs == Point {
				cs = Fn
			}
			fac = append(fac, Const(cs, t.Coef))
		}
		for _, a := range t.Atoms {
			if a.E.Cmp(big.NewInt(1)) == 0 {
				fac = append(fac, a.A)
			} else {
				fac = append(fac, intern(&Term{Op: "pow", Sort: a.A.Sort, Args: []*Term{a.A, Const(Int, a.E)}}))
			}
		}
		if len(fac) == 1 {
			sum = append(sum, fac[0])
		} else {
			sum = append(sum, intern(&Term{Op: "*", Sort: p.Sort, Args: fac}))
		}
	}
	if len(sum) == 1 {
		return sum[0]
	}
	return intern(&Term{Op: "+", Sort: p.Sort, Args: sum})
}

// Equal reports whether two terms have the same normal form.
func Equal(a, b *Term) bool {
	if a == b {
		return true
	}
	return Canon(a) == Canon(b)
}

// PolyEqual compares two polynomials.
func PolyEqual(a, b *Poly) bool {
	if len(a.Terms) != len(b.Terms) {
		return false
	}
	for k, x := range a.Terms {
		y, ok := b.Terms[k]
		if !ok || x.Coef.Cmp(y.Coef) != 0 {
			return false
		}
	}
	return true
}

// PolyDiff returns a-b.
func PolyDiff(a, b *Poly) *Poly {
	r := newPoly(a.Sort)
	for _, x := range a.Terms {
		r.addTerm(x.Coef, x.Atoms)
	}
	for _, x := range b.Terms {
		r.addTerm(new(big.Int).Neg(x.Coef), x.Atoms)
	}
	return r
}

// String renders a polynomial (monomials sorted, truncated).
func (p *Poly) String() string {
	terms := p.SortedTerms()
	var parts []string
	for i, t := range terms {
		if i >= 12 {
			parts = append(parts, fmt.Sprintf("… (%d monomials)", len(terms)))
			break
		}
		var b strings.Builder
		c := t.Coef
		if m := Modulus(p.Sort); m != nil {
			half := new(big.Int).Rsh(m, 1)
			if c.Cmp(half) > 0 {
				c = new(big.Int).Sub(c, m)
			}
		}
		if c.BitLen() > 24 {
			b.WriteString("0x" + c.Text(16))
		} else {
			b.WriteString(c.String())
		}
		for _, a := range t.Atoms {
			b.WriteString("·" + a.A.String())
			if a.E.Cmp(big.NewInt(1)) != 0 {
				if a.E.BitLen() > 24 {
					b.WriteString("^0x" + a.E.Text(16))
				} else {
					b.WriteString("^" + a.E.String())
				}
			}
		}
		parts = append(parts, b.String())
	}
	if len(parts) == 0 {
		return "0"
	}
	return strings.Join(parts, " + ")
}

// SingleMonomial returns the only monomial of p, if it has exactly one.
func (p *Poly) SingleMonomial() (*PTerm, bool) {
	if len(p.Terms) != 1 {
		return nil, false
	}
	for _, t := range p.Terms {
		return t, true
	}
	return nil, false
}
