package sym

import (
	"math/big"
	"testing"
)

func TestPoly(t *testing.T) {
	x, y := Sym(Fp, "x"), Sym(Fp, "y")
	a := Mul(Add(x, y), Add(x, y))
	b := Add(Add(Mul(x, x), Mul(Const(Fp, big.NewInt(2)), Mul(x, y))), Mul(y, y))
	if !Equal(a, b) {
		t.Fatalf("(x+y)^2: %s vs %s", PolyOf(a), PolyOf(b))
	}
	if Equal(a, Add(Mul(x, x), Mul(y, y))) {
		t.Fatal("should differ")
	}
	if !Equal(Sub(a, a), Const(Fp, big.NewInt(0))) {
		t.Fatal("a-a")
	}
	e := new(big.Int).Sub(P, big.NewInt(2))
	pw := Pow(x, e)
	m, ok := PolyOf(Mul(pw, x)).SingleMonomial()
	if !ok || m.Atoms[0].E.Cmp(new(big.Int).Sub(P, big.NewInt(1))) != 0 {
		t.Fatal("pow")
	}
	f := App(Fp, "inv", Add(x, y))
	g := App(Fp, "inv", Add(y, x))
	if !Equal(Mul(f, x), Mul(x, g)) {
		t.Fatal("canon atoms")
	}
	c := Sym(Bool, "c")
	if Ite(c, x, x) != x || Eq(Ite(c, ConstI(1), ConstI(0)), ConstI(0)) != Not(c) {
		t.Fatal("ite")
	}
}
