// Package sym implements hash-consed symbolic terms with an on-demand
// polynomial normal form (commutative-ring axioms) used by the abstract
// interpreter's value domain.  Terms are never evaluated on concrete inputs of
// the analysed library; they are compared as normal forms.
package sym

import (
	"fmt"
	"math/big"
	"sort"
	"strings"
	"sync"
)

// Sort is the algebraic sort of a term.
type Sort uint8

const (
	Int   Sort = iota // machine integers / lengths (normalised over Z, no wrap-around modelled)
	Bool              // 0/1 valued
	Fp                // field elements mod p
	Fn                // scalars mod n
	Point             // curve points: module over Z/n
	Bytes             // byte strings
	Any               // anything else (pointers-as-values, errors, opaque)
)

func (s Sort) String() string {
	return [...]string{"int", "bool", "fp", "fn", "point", "bytes", "any"}[s]
}

// Term is an immutable hash-consed DAG node.
type Term struct {
	ID    int
	Op    string // "c" constant, "s" symbol, "+", "*", "neg", "ite", or an application name
	Sort  Sort
	Args  []*Term
	C     *big.Int // constants (Int, Bool, Fp, Fn)
	S     string   // symbol name, or string/bytes constant payload (Op "c", Sort Bytes/Any)
	Taint uint64   // union of the taint labels of all leaves

	canon *Term
	poly  *Poly
}

var (
	mu     sync.Mutex
	table  = map[string]*Term{}
	nextID = 1
)

// P and N are the secp256k1 field prime and group order.
var (
	P, _ = new(big.Int).SetString("fffffffffffffffffffffffffffffffffffffffffffffffffffffffefffffc2f", 16)
	N, _ = new(big.Int).SetString("fffffffffffffffffffffffffffffffebaaedce6af48a03bbfd25e8cd0364141", 16)
)

// Modulus returns the coefficient modulus of a sort (nil for Z).
func Modulus(s Sort) *big.Int {
	switch s {
	case Fp:
		return P
	case Fn, Point:
		return N
	}
	return nil
}

func intern(t *Term) *Term {
	var b strings.Builder
	b.WriteString(t.Op)
	b.WriteByte('|')
	b.WriteByte(byte('0' + t.Sort))
	b.WriteByte('|')
	if t.C != nil {
		b.WriteString(t.C.Text(16))
	}
	b.WriteByte('|')
	b.WriteString(t.S)
	for _, a := range t.Args {
		fmt.Fprintf(&b, "|%d", a.ID)
	}
	// taint is part of identity for leaves only (symbols are created with a fixed taint)
	if len(t.Args) == 0 {
		fmt.Fprintf(&b, "|t%x", t.Taint)
	}
	k := b.String()
	mu.Lock()
	defer mu.Unlock()
	if old, ok := table[k]; ok {
		return old
	}
	for _, a := range t.Args {
		t.Taint |= a.Taint
	}
	t.ID = nextID
	nextID++
	table[k] = t
	return t
}

// Const makes an integer-like constant of the given sort (reduced for Fp/Fn).
func Const(s Sort, v *big.Int) *Term {
	c := new(big.Int).Set(v)
	if m := Modulus(s); m != nil {
		c.Mod(c, m)
	}
	return intern(&Term{Op: "c", Sort: s, C: c})
}

// ConstI makes an Int constant.
func ConstI(v int64) *Term { return Const(Int, big.NewInt(v)) }

// ConstBool makes a Bool constant.
func ConstBool(b bool) *Term {
	if b {
		return Const(Bool, big.NewInt(1))
	}
	return Const(Bool, big.NewInt(0))
}

// ConstStr makes a string / byte-string constant.
func ConstStr(s Sort, v string) *Term { return intern(&Term{Op: "c", Sort: s, S: v}) }

// Sym makes a named symbol.
func Sym(s Sort, name string) *Term { return intern(&Term{Op: "s", Sort: s, S: name}) }

// SymT makes a named symbol carrying taint labels.
func SymT(s Sort, name string, taint uint64) *Term {
	return intern(&Term{Op: "s", Sort: s, S: name, Taint: taint})
}

// SymSized makes a byte-string symbol whose length is part of its identity (distinct from the
// symbolic-length symbol of the same name).
func SymSized(name string, n int, taint uint64) *Term {
	return intern(&Term{Op: "sb", Sort: Bytes, S: name, C: big.NewInt(int64(n)), Taint: taint})
}

var freshCtr int

// Fresh makes a new unique symbol.
func Fresh(s Sort, prefix string, taint uint64) *Term {
	mu.Lock()
	freshCtr++
	n := freshCtr
	mu.Unlock()
	return SymT(s, fmt.Sprintf("%s#%d", prefix, n), taint)
}

// IsConst reports whether t is a numeric constant.
func (t *Term) IsConst() bool { return t.Op == "c" && t.C != nil }

// IsStrConst reports whether t is a string/bytes constant.
func (t *Term) IsStrConst() bool { return t.Op == "c" && t.C == nil }

// Int64 returns the constant value (ok=false if not a small constant).
func (t *Term) Int64() (int64, bool) {
	if !t.IsConst() || !t.C.IsInt64() {
		return 0, false
	}
	return t.C.Int64(), true
}

var commutative = map[string]bool{"+": true, "*": true, "and": true, "or": true, "xor": true, "eq": true, "band": true, "bor": true, "bxor": true,
	"xorbytes": true}

func init() {
	for _, op := range []string{"and", "or", "xor"} {
		for _, b := range []string{"8", "16", "32", "64"} {
			commutative[op+b] = true
		}
	}
}

// App builds an application node.  Commutative operators get sorted arguments.
func App(s Sort, op string, args ...*Term) *Term {
	a := append([]*Term(nil), args...)
	if commutative[op] {
		sort.Slice(a, func(i, j int) bool { return a[i].ID < a[j].ID })
	}
	return intern(&Term{Op: op, Sort: s, Args: a})
}

// WithTaint returns a term equal to t but carrying extra taint (wraps in an identity node).
func WithTaint(t *Term, taint uint64) *Term {
	if taint&^t.Taint == 0 {
		return t
	}
	n := &Term{Op: "tainted", Sort: t.Sort, Args: []*Term{t}, Taint: taint}
	return internTaint(n)
}

func internTaint(t *Term) *Term {
	k := fmt.Sprintf("tainted|%d|%x", t.Args[0].ID, t.Taint)
	mu.Lock()
	defer mu.Unlock()
	if old, ok := table[k]; ok {
		return old
	}
	t.Taint |= t.Args[0].Taint
	t.ID = nextID
	nextID++
	table[k] = t
	return t
}

func ringSort(s Sort) bool { return s == Int || s == Fp || s == Fn || s == Point }

// Add, Mul, Neg, Sub build ring nodes (lightly simplified; full normalisation is PolyOf).
func Add(a, b *Term) *Term {
	s := joinSort(a.Sort, b.Sort)
	if a.IsConst() && b.IsConst() {
		return Const(s, new(big.Int).Add(a.C, b.C))
	}
	if a.IsConst() && a.C.Sign() == 0 {
		return b
	}
	if b.IsConst() && b.C.Sign() == 0 {
		return a
	}
	return App(s, "+", a, b)
}

func Mul(a, b *Term) *Term {
	s := joinSort(a.Sort, b.Sort)
	if a.IsConst() && b.IsConst() {
		return Const(s, new(big.Int).Mul(a.C, b.C))
	}
	if a.IsConst() && a.C.Cmp(big.NewInt(1)) == 0 && b.Sort == s {
		return b
	}
	if b.IsConst() && b.C.Cmp(big.NewInt(1)) == 0 && a.Sort == s {
		return a
	}
	return App(s, "*", a, b)
}

func Neg(a *Term) *Term {
	if a.IsConst() {
		return Const(a.Sort, new(big.Int).Neg(a.C))
	}
	return App(a.Sort, "neg", a)
}

func Sub(a, b *Term) *Term { return Add(a, Neg(b)) }

// Pow builds a^(2^k)-style powers through repeated multiplication markers: pow(a, e) with constant e.
func Pow(a *Term, e *big.Int) *Term {
	return App(a.Sort, "pow", a, Const(Int, e))
}

func joinSort(a, b Sort) Sort {
	if a == b {
		return a
	}
	if a == Point || b == Point {
		return Point
	}
	if a == Bool {
		return b
	}
	if b == Bool {
		return a
	}
	// mixing Int constants into Fp/Fn is allowed (small integer coefficients)
	if a == Int {
		return b
	}
	if b == Int {
		return a
	}
	return a
}

// Ite builds a conditional, simplifying trivial cases.
func Ite(c, a, b *Term) *Term {
	if a == b {
		return a
	}
	if c.IsConst() {
		if c.C.Sign() != 0 {
			return a
		}
		return b
	}
	if c.Op == "not" {
		return Ite(c.Args[0], b, a)
	}
	// the condition itself as an arm
	if a == c {
		a = ConstBool(true)
	}
	if b == c {
		b = ConstBool(false)
	}
	if a.Sort == Bool && b.Sort == Bool && a.IsConst() && b.IsConst() {
		if a.C.Sign() != 0 && b.C.Sign() == 0 {
			return c
		}
		if a.C.Sign() == 0 && b.C.Sign() != 0 {
			return Not(c)
		}
	}
	// nested ite on the same condition
	if a.Op == "ite" && a.Args[0] == c {
		a = a.Args[1]
	}
	if b.Op == "ite" && b.Args[0] == c {
		b = b.Args[2]
	}
	if a == b {
		return a
	}
	s := a.Sort
	if s == Bool && b.Sort != Bool {
		s = b.Sort
	}
	return intern(&Term{Op: "ite", Sort: s, Args: []*Term{c, a, b}})
}

// Not negates a Bool term.
func Not(c *Term) *Term {
	if c.IsConst() {
		return ConstBool(c.C.Sign() == 0)
	}
	if c.Op == "not" {
		return c.Args[0]
	}
	if c.Op == "ite" && c.Sort == Bool {
		// memoised: merged conditions are DAGs with heavily shared sub-terms, and the recursion is exponential on them
		// otherwise
		if r, ok := notMemo[c]; ok {
			return r
		}
		r := Ite(c.Args[0], Not(c.Args[1]), Not(c.Args[2]))
		notMemo[c] = r
		return r
	}
	return App(Bool, "not", c)
}

var notMemo = map[*Term]*Term{}

// Eq builds an equality test (Bool).
func Eq(a, b *Term) *Term {
	if a == b {
		return ConstBool(true)
	}
	if a.IsConst() && b.IsConst() && a.Sort == b.Sort {
		return ConstBool(a.C.Cmp(b.C) == 0)
	}
	if a.IsStrConst() && b.IsStrConst() {
		return ConstBool(a.S == b.S)
	}
	// push through ite with constant arms
	if a.Op == "ite" && (a.Args[1].Op == "c" || a.Args[2].Op == "c") && b.Op == "c" {
		return Ite(a.Args[0], Eq(a.Args[1], b), Eq(a.Args[2], b))
	}
	if b.Op == "ite" && (b.Args[1].Op == "c" || b.Args[2].Op == "c") && a.Op == "c" {
		return Ite(b.Args[0], Eq(b.Args[1], a), Eq(b.Args[2], a))
	}
	// a Bool-valued term compared with 0/1
	if a.Sort == Bool && b.IsConst() {
		if b.C.Sign() == 0 {
			return Not(a)
		}
		if b.C.Cmp(big.NewInt(1)) == 0 {
			return a
		}
		return ConstBool(false)
	}
	if b.Sort == Bool && a.IsConst() {
		return Eq(b, a)
	}
	// integer equation  c == k + x  (x one atom with coefficient 1): one normal form  x == c - k
	if a.Sort == Int && b.Sort == Int {
		cst, other := a, b
		if !cst.IsConst() {
			cst, other = b, a
		}
		if cst.IsConst() && other.Op == "+" {
			pl := PolyOf(other)
			var k *big.Int
			var atom *Term
			okShape := len(pl.Terms) == 2
			for _, t := range pl.Terms {
				switch {
				case len(t.Atoms) == 0:
					k = t.Coef
				case len(t.Atoms) == 1 && t.Atoms[0].E.Cmp(big.NewInt(1)) == 0 && t.Coef.Cmp(big.NewInt(1)) == 0:
					atom = t.Atoms[0].A
				default:
					okShape = false
				}
			}
			if okShape && k != nil && atom != nil && atom.Op != "+" {
				return Eq(Const(Int, new(big.Int).Sub(cst.C, k)), atom)
			}
		}
	}
	return App(Bool, "eq", a, b)
}

// String renders a term (for evidence and diagnostics).
func (t *Term) String() string {
	var b strings.Builder
	t.write(&b, 0)
	return b.String()
}

func (t *Term) write(b *strings.Builder, depth int) {
	if depth > 12 {
		b.WriteString("…")
		return
	}
	switch t.Op {
	case "c":
		if t.C != nil {
			if t.C.BitLen() > 20 {
				b.WriteString("0x" + t.C.Text(16))
			} else {
				b.WriteString(t.C.String())
			}
		} else {
			fmt.Fprintf(b, "%q", t.S)
		}
	case "s", "sb":
		b.WriteString(t.S)
	case "+", "*":
		b.WriteByte('(')
		for i, a := range t.Args {
			if i > 0 {
				b.WriteString(" " + t.Op + " ")
			}
			a.write(b, depth+1)
		}
		b.WriteByte(')')
	case "tainted":
		t.Args[0].write(b, depth)
	default:
		b.WriteString(t.Op)
		b.WriteByte('(')
		for i, a := range t.Args {
			if i > 0 {
				b.WriteString(", ")
			}
			a.write(b, depth+1)
		}
		b.WriteByte(')')
	}
}

var bytesLen = map[*Term]int{}

// SetBytesLen records the length of a byte-string term.
func SetBytesLen(t *Term, n int) {
	mu.Lock()
	bytesLen[t] = n
	mu.Unlock()
}

// BytesLenByOp gives the fixed result length of byte-string producing operators.
var BytesLenByOp = map[string]int{}

// BytesLen returns the statically known length of a byte-string term.
func BytesLen(t *Term) (int, bool) {
	if t.Op == "tainted" {
		return BytesLen(t.Args[0])
	}
	if t.IsStrConst() {
		return len(t.S), true
	}
	if t.Op == "sb" {
		return int(t.C.Int64()), true
	}
	mu.Lock()
	n, ok := bytesLen[t]
	mu.Unlock()
	if ok {
		return n, true
	}
	if n, ok := BytesLenByOp[t.Op]; ok {
		return n, true
	}
	switch t.Op {
	case "cat":
		tot := 0
		for _, a := range t.Args {
			n, ok := BytesLen(a)
			if !ok {
				return 0, false
			}
			tot += n
		}
		return tot, true
	case "sub":
		lo, ok1 := t.Args[1].Int64()
		hi, ok2 := t.Args[2].Int64()
		if ok1 && ok2 {
			return int(hi - lo), true
		}
	case "ite":
		a, ok1 := BytesLen(t.Args[1])
		b, ok2 := BytesLen(t.Args[2])
		if ok1 && ok2 && a == b {
			return a, true
		}
	}
	return 0, false
}
