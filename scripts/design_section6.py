#!/usr/bin/env python3
"""Regenerates section 6 of DESIGN.md (seeded changes vs. checks) from /verif/seeded/*/meta.json."""
import json, glob, os, re
rows = []
for d in sorted(glob.glob('/verif/seeded/C*')):
    m = json.load(open(d + '/meta.json'))
    name = os.path.basename(d)
    summ = re.sub(r'\s+', ' ', m.get('summary', '')).replace('|', '/')
    if len(summ) > 170:
        summ = summ[:167].rsplit(' ', 1)[0] + ' ...'
    own = 'yes' if m.get('caught_by_own_property_check') else '**no**'
    others = [c for c in m.get('caught_by', []) if c != m.get('property')]
    rows.append((name, m.get('property'), summ, own, ' '.join(others) or ('(not run)' if m.get('caught_by_note') else '-')))
out = []
out.append('## 6. Seeded behaviour-breaking changes and which checks report them\n')
out.append('''%d changes (rounds `<id>-<k>`, `<id>-r2<k>`, ... `<id>-r12<k>`; round 12: ten properties, all 20 changes reported at once), each written by an independent sub-agent that was given only the text
of one property and a scratch worktree (nothing from /verif), each needing something
specific to manifest (an input class, an aliasing pattern, a build configuration, a
call order), each building and passing the whole pinned suite, each with a demonstration
(a test that passes on the pinned tree and fails on the changed one) that I re-ran
myself in a scratch worktree before filing it under `/verif/seeded/<id>/` (`patch.diff`,
the demonstration, `meta.json` with the verification log).  None was ever committed to
/repo.  `scripts/matrix.py` applies each to a scratch copy and runs the quick tier of all
20 checks; the thorough tier of each check re-runs the ones that concern it.  From round 2
on the sub-agents were also given the one-line summaries of the changes already filed for
their property, so that they would go for other functions and other clauses.

"own" = the check of the property the change was written against reports it; "also" =
other checks that report it (because the changed routine is reachable from their
property's code, section 1A "relevance filter" - e.g. a wrong GLV rounding breaks C04 and
with it every protocol that multiplies by a secret or verifies).

| seed | property | change (abridged) | own | also reported by |
|---|---|---|---|---|''' % len(rows))
for r in rows:
    out.append('| %s | %s | %s | %s | %s |' % r)
n_own = sum(1 for r in rows if r[3] == 'yes')
out.append('\n%d of %d are reported by their own property\'s check.\n' % (n_own, len(rows)))
out.append('''Changes that the first version of a check **missed**, and what was strengthened (each
strengthening is a rule of the property, not a special case for the seed; the seed then
served as the regression test):

| seed | missed by | why | strengthening |
|---|---|---|---|
| C01-1, C01-r21 | C01 | `SqrtRatio` was only validated with distinct receiver and operands | rule `C01-6/alias`: the four receiver/argument alias patterns of `SqrtRatio` and `Sqrt` |
| C03-1, C03-r21 | C03 | alias patterns were run for the three internal formulas only | `C03-2/alias/*`: 16 alias patterns of every exported operation |
| C04-r22, C18-r21 | C04 | `DoubleScalarMultBasepointVartime` belonged to C16 only | C04 runs the C16 double-multiplication rules incl. receiver = P |
| C05-1 | C05 | the checker crashed on the changed tree (projection of a malformed aggregate) | robust projection; a checker crash is an undecided obligation (exit 1) |
| C12-1, C12-r21 | C12 | `byte` arithmetic was modelled over the integers (no wrap-around) | `Trunc` wrapping of unsigned arithmetic narrower than 64 bits |
| C13-r21 | C13 | `Verify` was checked for its result only | `C13-1/read-only`: no store into memory reachable from the key |
| C19-r21 | C19 | instruction *selection* was compared, not alignment requirements | `C19-4/alignment`: SSE instructions with memory operands that fault on unaligned addresses need a proven 16-byte alignment |
| C03-r31 | C03 | `IsYOdd` recomputed Y/Z itself and used the raw Y of a computed identity (0:Y:0); the "coordinate read comes from `rescale`" rule is about reads of a Point's fields and did not see a fresh element | `C03-5/IsYOdd`: the parity test on symbolic coordinates must equal parity(Z = 0 ? 1 : Y/Z), however it is computed; C03 also runs the encoder rule `C06-4` (bytes as functions of X/Z, Y/Z) |
| C19-r31 | C19 | a software-pipelined SSE2 lookup loads a 16th table entry past the end of the 15-entry table; results are unchanged when the read succeeds | `C19-5/in-bounds/*`: every load and store through a pointer parameter lies inside the pointed-to object (offsets from the assembly interpreter, sizes from the Go prototype) |
| C02-r42 | C02 | the hand-written control-word normaliser `Uint64ToUint1` (fiat package, `voi.go`) was a *specification* for the upper layers but never compared with its code; `u & 1` is wrong for even non-zero control words | `limbproof.CheckUint64ToUint1` (both fiat packages): result = [u != 0] for every 64-bit u |
| C05-r42 | C05 | package-level scratch in `addMixed`: sequentially exact, wrong under concurrent callers; only C20 looked for shared writes | C20 is the bottom layer of every property (sequential reasoning about one call is valid only without shared mutable state); its obligations are filtered by reachability like any lower layer |
| C08-r41 | C08 | `newPrivateKeyFromScalar` keeps the caller's scalar: signatures stop verifying once the caller mutates it; C10 decides key construction but `Sign` does not call the constructor | the constructors of the *key objects* a property's routines take as operands are relevant to it (the property quantifies over every key the API can produce); C10 added below C08 |
| C09-r41 | C09 | the sampler rejects in-range candidates with a zero top byte; the rule required the three tests on the accepting path but not that they are the only ones | `C09-3`: every condition on an accepting path that looks at candidate bytes is `E >= n` or `fn(E) = 0` of some block (first candidate in [1, n) wins) |
| C19-r42 | C19 | the portable lookup calls the validating `ConditionalSelect` and panics on table entries (whose validity flag is never set); the equivalence rule ignored panicking paths | `C19-2/.../no-panic`: the portable twin has no reachable panic (the assembly has none) |
| C02-r51, C05-r52, C08-r52, C12-r52, C18-r51 | C02, C05, C08, C12, C18 | each breaks a clause that the property *states* but that was decided only by another property's check (the shared helpers under C01; "every private scalar is mapped to d*G" under C10; "the encodings parse back" under C12; the Bitcoin entry point's own slicing under C07; scalar folds with the receiver in the list under C02) | the rule that decides the clause is also run by the check of every property that states it (`C02-8` helpers, `C10-3` in C05, `C12-1..4` in C08, `C07-4` incl. a new bounds obligation in C12, `C02-2c` in C18) |
| C09-r51 | C09 | the sampler aborted on a candidate >= n instead of drawing the next one; the rule looked at accepting paths only | `C09-3`: an error return without a failed read is allowed only after the maximum number of attempts |
| C04-r62 | C04 (the check did not terminate) | a ladder that skips leading zero windows made the merged conditions deep DAGs; negation of a merged condition recursed without memoisation (exponential) | `sym.Not` memoised (2.6 s instead of > 1 h); independently, every check has a wall-clock budget after which it reports the undecided obligation `checker/analysis-timeout` (exit 1) instead of hanging |
| C05-r61, C11-r61 | C05, C11 | slips in the portable lookups / their helper that only the purego build executes; the quick tier of C05 analysed the assembly configuration only, and C11's roots did not include `sign` although the property speaks of signatures produced by Sign | C05 decides the lookups of the purego configuration in the quick tier too; C11 runs the sign rule `C08-1` (so the constant-time base multiplication is part of what it rests on) |
| C09-r62 | C09 | `hashToScalar` refuses digests >= n instead of reducing them (RFC 6979 bits2octets); only C07 / C08 / C11 looked at the digest scalar | `C09-1/hashToScalar`: e = leftmost 32 bytes mod n for every digest of >= 32 bytes |
| C13-r61 | C13 | `SchnorrPublicKey.Point()` hands out the key's internal point; the accessor rule ran under C18 / C10 only | `c18KeyMethods` also under C13 and C14 |
| C15-r61 | C15 | the blank import of `crypto/sha256` dropped: `crypto.SHA256.New()` panics in programs that do not link the implementation otherwise | `C15-1/hash-linked/*`: a package that calls `crypto.Hash.New` and names a hash identifier has the implementing package in its import closure |
| C16-r62 | C16 | batches above 128 split with the remainder dropped: a length threshold that neither the instances 0..3 nor the loop argument see | `C16-2/shape`: no branch on the list length against a constant above 3 |
| C05-r71, C05-r72 | C05 | a fast path of the routine that consumes the variable-time generator multiply drops the product; `PublicKey.Point()` hands out the stored point, which the Schnorr conversion then negates - both break clauses C05 states ("the variable-time generator multiply used by verification", "every private scalar d is mapped to the public point d*G") that only C16 / C10 decided | C05 also runs `C16-1` (the double multiplication, the only consumer of `scalarBaseMultVartime`) and the accessor rule `C10-4` |
| C15-r72 | C15 | an up-front length check in `SetUniformBytes` with `>=` for `>`: 64-byte uniform strings panic; the rule compared values on returning paths only | `C15-3/SetUniformBytes/lengths`: for every length 32..64 (what `SetWideBytes` reduces, C01) the call returns and no panic is reachable |
| C20-r72 | C20 | default entropy taken from a package-level `bufio.Reader`: the write to shared state happens inside `io.ReadFull`, whose reader argument was summarised as read-only | a reader's state is memory: `io.ReadFull` writes its reader (user-supplied readers stay the caller's responsibility in rule 2; a package-level one is shared state) |
| C08-r81, C09-r82, C11-r81, C11-r82 | C08, C09, C11 | `Verify` refusing hashes that are not linked in; `Sign` refusing the RFC 6979 selector for digests other than 32 bytes; the recoverable parser masking the id byte; `Verify` no longer comparing the recovered key - each breaks a clause the property states ("verifies ... in every encoding", "for every key and digest", "ids outside [0,3] are errors", "no other id does") that only C07 / C08 / C12 decided | C08 runs `C07-3` (Verify's options and encodings), C09 runs `C08-3` (Sign hands every admissible digest and the reader on), C11 runs `C12-2` and `C07-3`; `crypto.Hash.Available` is an opaque boolean that shows up in any accept set depending on it |
| C04-r91 | C04 | a range assertion on the GLV halves with a mis-transcribed bound: the split panics for the scalars whose half sits at its extreme; the value rules compared returning paths only | `C04-3/splitGLV/total`: no panic may be reachable in the scalar split (an assertion whose bound cannot be decided is reported as undecided - fail-closed) |
| C18-r92 | C18 | `Point.Equal` returns 1 for `v == p` before asserting validity: the zero value is accepted when it is both operands; rule 1b cleared one operand's flag at a time with distinct objects | `C18-1b/.../all-aliased`: every exported function with two or more Point operands is run with one uninitialised object as every operand (receiver included) and must not return |
| C20-r101 | C20 | `ParseASN1PublicKey` keeps the sub-slice of the caller's DER buffer that `BitString.RightAlign()` returns as the key's cached encoding; C10 / C12 / C18 reported it (constructor value rules), C20 did not: "no write to shared memory" says nothing about memory the *caller* may write | rule `C20-4/owns/*`: everything reachable from a result of the API is freshly allocated (deep return-alias and retention summaries in the effect engine; `cryptobyte.String.Read*` outputs point into the input) |
| C06-r101 | C06 (and every other check) | the encoders return one package-level `[]byte{0}` for the identity: every caller shares it, a write by one changes the encoding of the identity for all | `C20-4` (a result must not be package-level memory), evaluated by every check as part of its bottom layer |
| C10-r101 | C10 | the identity test moved out of `newPublicKeyFromPoint` while `ParseASN1PublicKey` started to call it directly: an SPKI wrapping `00` yields a key holding infinity; only C12 decided that parser | `C12-5` is also evaluated by C10 and C18 (the parser is a constructor of key objects) |
| (sweep) `(*[32]byte)(src[33:64])`, `src[1:34]` | C06, C12, C13 | found by the AST mutation sweep (`scripts/mutsweep.py`), killed by the tests but silent in every check: a slice-to-array conversion of a too short slice and a slice bound beyond the tested length were *events* nobody read | a constant out-of-range access is a reachable panic of the run (every "no panic" rule decides it); rule `index-safety` (bounds checks discharged from the path condition by Fourier-Motzkin, capacity >= length only) now also for the SEC 1 decoders, `VerifyRaw`, `Verify`, `sign`, `Sign`, ECDH, the key constructors, `RecoverPublicKey`, `signSchnorr`, the hash-to-curve drivers |
| C05-r112 | C05 | a new exported `FixedBaseTable` whose `Set(G)` fast path points the table at the embedded generator table and whose `Set(H)` rebuilds "its" table in place: 8160 generator entries overwritten; C20 and C18 reported it (receiver retains package-level memory, `C20-4`), C05 did not - the new API is not reachable from C05's routines and the write goes through the *receiver*, not through the variable | `C20-1` also follows objects that are made to point into package-level memory: if any function stores (or returns an object holding) a pointer into variable g in an object of module type T, every write through an operand of type T counts as a write to g; the obligation is keyed by the variable, so every property whose code reads the tables reports it |
| C10-r111 | C10 | `NewPointFromCoords` decodes y with the reducing `SetBytes` and drops the range check: `(x, y0 + p)` is accepted and `NewPublicKeyFromPoint` makes a key of it; C06 / C18 reported it, C10 did not (the raw-coordinate constructor is the one Point constructor no routine of C10 calls) | C10 evaluates `C06-1/accept/NewPointFromCoords` (constructors of the operands of `NewPublicKeyFromPoint`) |
| (not kept) C03-r111 | - | `rescale` made to write its receiver before reading the argument's Z: wrong for `p.rescale(p)` on an identity - but no exported operation calls `rescale` with an aliased receiver, the demonstration had to call the unexported routine | none: the API behaves identically, so silence is the right answer; the change is not filed as a seed |
| C19-r22 | C19 (after the relevance filter was added) | reachability was computed in the amd64 configuration only; the portable lookup is the only caller that passes non-0/1 values to `Uint64Equal` | relevance is the union over every loaded build configuration |
''')
s = open('/verif/DESIGN.md').read()
block = '<!-- SECTION6 BEGIN -->\n' + '\n'.join(out) + '\n<!-- SECTION6 END -->\n'
if '<!-- SECTION6 BEGIN -->' in s:
    s = re.sub(r'<!-- SECTION6 BEGIN -->.*?<!-- SECTION6 END -->\n', lambda m: block, s, flags=re.S)
else:
    i = s.index('## 7. False alarms met while building')
    s = s[:i] + block + '\n' + s[i:]
open('/verif/DESIGN.md', 'w').write(s)
print('section 6 written:', len(rows), 'seeds,', n_own, 'own')
