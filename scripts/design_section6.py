#!/usr/bin/env python3
"""Regenerates section 6 of DESIGN.md (seeded changes vs. checks) from /verif/seeded/*/meta.json."""
import json, glob, os, re
rows = []
for d in sorted(glob.glob('/verif/seeded/C*')):
    m = json.load(open(d + '/meta.json'))
    name = os.path.basename(d)
    summ = re.sub(r'\s+', ' ', m.get('summary', '')).replace('|', '/')
    if len(summ) > 170:
        summ = summ[:167].rsplit(' ', 1)[0] + ' ...'
    own = 'yes' if m.get('caught_by_own_property_check') else '**no**'
    others = [c for c in m.get('caught_by', []) if c != m.get('property')]
    rows.append((name, m.get('property'), summ, own, ' '.join(others) or '-'))
out = []
out.append('## 6. Seeded behaviour-breaking changes and which checks report them\n')
out.append('''%d changes (three rounds: `<id>-<k>`, `<id>-r2<k>`, `<id>-r3<k>`), each written by an independent sub-agent that was given only the text
of one property and a scratch worktree (nothing from /verif), each needing something
specific to manifest (an input class, an aliasing pattern, a build configuration, a
call order), each building and passing the whole pinned suite, each with a demonstration
(a test that passes on the pinned tree and fails on the changed one) that I re-ran
myself in a scratch worktree before filing it under `/verif/seeded/<id>/` (`patch.diff`,
the demonstration, `meta.json` with the verification log).  None was ever committed to
/repo.  `scripts/matrix.py` applies each to a scratch copy and runs the quick tier of all
20 checks; the thorough tier of each check re-runs the ones that concern it.  From round 2
on the sub-agents were also given the one-line summaries of the changes already filed for
their property, so that they would go for other functions and other clauses.

"own" = the check of the property the change was written against reports it; "also" =
other checks that report it (because the changed routine is reachable from their
property's code, section 1A "relevance filter" - e.g. a wrong GLV rounding breaks C04 and
with it every protocol that multiplies by a secret or verifies).

| seed | property | change (abridged) | own | also reported by |
|---|---|---|---|---|''' % len(rows))
for r in rows:
    out.append('| %s | %s | %s | %s | %s |' % r)
n_own = sum(1 for r in rows if r[3] == 'yes')
out.append('\n%d of %d are reported by their own property\'s check.\n' % (n_own, len(rows)))
out.append('''Changes that the first version of a check **missed**, and what was strengthened (each
strengthening is a rule of the property, not a special case for the seed; the seed then
served as the regression test):

| seed | missed by | why | strengthening |
|---|---|---|---|
| C01-1, C01-r21 | C01 | `SqrtRatio` was only validated with distinct receiver and operands | rule `C01-6/alias`: the four receiver/argument alias patterns of `SqrtRatio` and `Sqrt` |
| C03-1, C03-r21 | C03 | alias patterns were run for the three internal formulas only | `C03-2/alias/*`: 16 alias patterns of every exported operation |
| C04-r22, C18-r21 | C04 | `DoubleScalarMultBasepointVartime` belonged to C16 only | C04 runs the C16 double-multiplication rules incl. receiver = P |
| C05-1 | C05 | the checker crashed on the changed tree (projection of a malformed aggregate) | robust projection; a checker crash is an undecided obligation (exit 1) |
| C12-1, C12-r21 | C12 | `byte` arithmetic was modelled over the integers (no wrap-around) | `Trunc` wrapping of unsigned arithmetic narrower than 64 bits |
| C13-r21 | C13 | `Verify` was checked for its result only | `C13-1/read-only`: no store into memory reachable from the key |
| C19-r21 | C19 | instruction *selection* was compared, not alignment requirements | `C19-4/alignment`: SSE instructions with memory operands that fault on unaligned addresses need a proven 16-byte alignment |
| C03-r31 | C03 | `IsYOdd` recomputed Y/Z itself and used the raw Y of a computed identity (0:Y:0); the "coordinate read comes from `rescale`" rule is about reads of a Point's fields and did not see a fresh element | `C03-5/IsYOdd`: the parity test on symbolic coordinates must equal parity(Z = 0 ? 1 : Y/Z), however it is computed; C03 also runs the encoder rule `C06-4` (bytes as functions of X/Z, Y/Z) |
| C19-r31 | C19 | a software-pipelined SSE2 lookup loads a 16th table entry past the end of the 15-entry table; results are unchanged when the read succeeds | `C19-5/in-bounds/*`: every load and store through a pointer parameter lies inside the pointed-to object (offsets from the assembly interpreter, sizes from the Go prototype) |
| C19-r22 | C19 (after the relevance filter was added) | reachability was computed in the amd64 configuration only; the portable lookup is the only caller that passes non-0/1 values to `Uint64Equal` | relevance is the union over every loaded build configuration |
''')
s = open('/verif/DESIGN.md').read()
block = '<!-- SECTION6 BEGIN -->\n' + '\n'.join(out) + '\n<!-- SECTION6 END -->\n'
if '<!-- SECTION6 BEGIN -->' in s:
    s = re.sub(r'<!-- SECTION6 BEGIN -->.*?<!-- SECTION6 END -->\n', lambda m: block, s, flags=re.S)
else:
    i = s.index('## 7. False alarms met while building')
    s = s[:i] + block + '\n' + s[i:]
open('/verif/DESIGN.md', 'w').write(s)
print('section 6 written:', len(rows), 'seeds,', n_own, 'own')
