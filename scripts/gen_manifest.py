#!/usr/bin/env python3
"""Generates /verif/MANIFEST.json from the table below.  Run after adding a check."""
import json, os

ENV = "GOFLAGS=-mod=mod GOPROXY=off GOSUMDB=off GOTOOLCHAIN=local GOWORK=off"
SETUP = f"cd /verif && {ENV} go build -o bin/check ./cmd/check"

# id -> (category, level text, level note, technique)
P = {
 "C01": ("other",
  "Sound static decision, for all operands, of the named clauses: limb-equation proofs (exact integer equations, backward substitution, interval side conditions) of every fiat field routine, reduceSaturated and the byte/limb helpers; every Element method body equals the ring specification used by the upper layers under every receiver/argument aliasing; Invert and pow3mod4 chains evaluate to the exponents p-2 and (p-3)/4; SqrtRatio = RFC 9380 F.2.1.2 as terms; SetWideBytes is a weighted tiling for every length 32..64; limbs are only written with values proven < p.",
  "Trusted: math/bits semantics, go/parser + go/ssa, the checker (limbproof, absint, sym). Assumes RFC 9380's sqrt_ratio procedure is correct mathematics. Timing is C17's subject.",
  "limb-equation weakest-precondition proof + abstract interpretation over go/ssa with polynomial normal forms"),
 "C02": ("other",
  "Same layered static decision as C01 for the scalar ring mod n: fiat scalar routines, reduceSaturated, the half-order comparison chain ((n-1)/2 literal and [s > (n-1)/2]), Scalar method bodies = ring specification under all alias patterns, Invert chain exponent = n-2, Sum/Product folds (instances 0..4 incl. receiver inside vec + loop shape), constructors return nil on error, limbs only written with values < n.",
  "Trusted: math/bits semantics, go/parser + go/ssa, the checker. Sum/Product for lengths > 4 rest on the loop-shape rule (single accumulator update per element).",
  "limb-equation weakest-precondition proof + abstract interpretation over go/ssa with polynomial normal forms"),
 "C03": ("translation_validation",
  "The three projective formulas are validated against the Renes-Costello-Batina closed forms as polynomial identities in symbolic coordinates (all inputs, all representatives); doubling reference tied to the addition reference modulo the curve equation; alias patterns; exported operations reduce to the formulas with the validity flag propagated; Equal = two cross-product tests; every coordinate leaving the package comes from rescale().",
  "Trusted: RCB15 completeness theorem for prime-order curves, C01 (field operations exact), go/ssa, the checker.",
  "abstract interpretation over go/ssa; polynomial normal-form comparison with reference formulas"),
 "C17": ("other",
  "Sound (for the modelled sinks) interprocedural taint analysis by abstract interpretation over go/ssa, in both amd64 build configurations (arm64 added in thorough): every fiat limb routine, helper and reduceSaturated with every word secret; every non-Vartime method of field.Element and Scalar with every operand secret; every non-Vartime Point method, the window-table methods, table construction and the pure-Go lookups with every coordinate / control word / index secret; ScalarMult, ScalarBaseMult, MultiScalarMult with secret scalars through the real ladders and lookups; the protocol layer (key import, key generation, ECDH, ECDSA sign incl. nonce generation and self-check, Schnorr key derivation and signing) with secret = key bytes, private scalars, entropy bytes and everything derived. Sinks: branch conditions, indices / slice bounds / allocation sizes, division / modulo / variable shifts, calls of *Vartime* routines, calls of library functions outside the constant-time table, calls without specification. ~270 runs; every finding (56 on this tree) must match the declassification table of 8 (function, kind of secret-dependent atom, reason) entries. Assembly lookups: idx reaches neither an address nor a jump, constant loop bound, no CALL (abstract interpretation of the .s file). Naming contract: inside the curve packages only *Vartime* functions call *Vartime* functions. Positive controls: the three Vartime twins run on secret scalars must be flagged.",
  "Trusted: the Go compiler keeps branch-free SSA branch-free; 64-bit ALU / SSE2 timing is data independent; the constant-time library table; the lower-layer specifications used at the upper layers (each lower layer is analysed in its own runs). Micro-architectural leakage is out of scope.",
  "interprocedural taint analysis (abstract interpretation over go/ssa with taint-carrying terms) + abstract interpretation of Go assembly + call-graph naming rule"),
 "C18": ("other",
  "Per-call invariants decided statically (inductive over call sequences; no sequence is enumerated): (1a) every store to Point.isValid writes the constant true inside one of the seven validated constructors or a value computed only from operands' flags; (1b) every exported function of the curve package, abstractly interpreted with one Point operand's flag cleared (each operand in turn, incl. each entry of a point list), has no returning path - it panics; the assertion helper returns exactly when all flags are set; (2) limbs of Element / Scalar are written only by fiat outputs and the proven-in-range unchecked setter; (3) for every function of the public packages returning (object, error): object nil exactly when the error is non-nil on every returning path, and under every rejecting valuation every leaf of the receiver keeps its initial value; (4) receivers may alias operands in every exported Point operation (16 patterns) and in the multi-/double-scalar routines; (5) key objects are created only in their constructors, store fresh copies (allocation-site origin), and every exported method of the four key types stores into no memory reachable from receiver or arguments and returns only fresh memory or immutable key objects; (6) the seven object types are not comparable with ==.",
  "Trusted: C06 / C15 (the validated constructors accept only curve points), C01-10 / C02 (aliasing inside Element / Scalar methods), the lower-layer specifications; go/ssa; the checker.",
  "abstract interpretation over go/ssa (typestate of the validity flag, allocation-site freshness, store events) + SSA who-writes scans + go/types comparability"),
 "C19": ("translation_validation",
  "The SSE2 lookup routines are validated against their portable twins for every index 0..15 and every table content: the assembly is parsed and abstractly interpreted (loop unrolled by constant propagation, XMM lanes symbolic), each stored lane must be the table limb / identity constant the Go reference (abstractly interpreted on a fully symbolic table) stores, under the gc/amd64 layout from go/types; store footprint inside the coordinate bytes; idx never reaches an address or branch; the build-constraint surface of the module is exactly the stub/assembly/reference triple with identical declaration sets in every configuration; all call sites pass 4-bit windows.",
  "Trusted: Go assembler semantics of the mnemonics used (tabled in internal/asmx), go/types.SizesFor(gc, amd64), go/ssa, the checker. Not decided: agreement of the avo generator (separate module internal/asm) with the checked-in .s file.",
  "abstract interpretation of Go assembly + abstract interpretation of the Go twin over go/ssa; lane-by-lane comparison"),
 "C04": ("other",
  "Static decision for all scalars and points: lattice constants verified numerically (lambda^3=1, beta^3=1, lambda*G=(beta*Gx,Gy), basis determinant n, g1/g2 roundings); bound on |k1|,|k2| derived in exact rational arithmetic from the literals and compared with the window the ladder is found to consume (16 bytes); splitGLV terms; rounded 256x256 product proven by limb equations (incl. the carry into the top limb and the rounding bit); sign pairing; table = (j+1)P; lookups enumerated for idx 0..15; the unrolled ladder of both GLV multiplies is recognised as sum nibble*16^k and equals s*P in all sign cases, also with the receiver aliasing P.",
  "Trusted: C01-C03, C19 (assembly lookup), the endomorphism fact that (x,y)->(beta x,y) is multiplication by lambda on the whole cyclic group once it holds for G; go/ssa; the checker.",
  "abstract interpretation over go/ssa in a Z/n-module domain + exact rational bound computation + limb-equation proof"),
 "C05": ("other",
  "All 8160 embedded table entries compared with independently computed (j+1)*256^i*G (exhaustive over the file); decoder index map and canonical-only decoding obtained by abstractly interpreting the initialiser on a symbolic file; odd tables = entries 16(j+1)-1; both fixed-base ladders recognised as sum over all 64 nibbles = s*G; affine/huge lookups enumerated for every index (16/256) incl. the masked idx=0 case; unsafe prefix reinterpretation layout-valid.",
  "Trusted: SEC 2 generator, independent big-integer arithmetic (internal/refmath), C01/C03, C19 for the assembly lookup; go/ssa; the checker.",
  "exhaustive constant verification by independent arithmetic + abstract interpretation over go/ssa in a Z/n-module domain"),
 "C12": ("other",
  "Static decision for every byte string: accept sets (propositional normal forms over the atoms of a strict-DER reader specification) of ParseASN1Signature (one SEQUENCE, nothing trailing, two minimal non-negative INTEGERs, nothing trailing inside, each a canonical non-zero scalar of 1..32 bytes; bytesToCanonicalScalar validated for every length), of the compact parsers (64/65 bytes, canonical non-zero halves; values d[0:32], d[32:64], d[64]) and of ParseASN1PublicKey (SEQUENCE{SEQUENCE{ecPublicKey, secp256k1}, BIT STRING with no unused bits holding a valid SEC 1 key}, nothing trailing at any level; this rule found the genuine unused-bits defect, now fixed); the BIP-66 predicate extracted from the CFG is equivalent to the BIP's 14-rule reference predicate (18 atoms, every consistent valuation); every index / slice / slice-to-array conversion in the parsers is proven in bounds from the dominating checks by linear entailment (Fourier-Motzkin; 33 obligations in the BIP-66 predicate); builders emit exactly the structures the parsers accept (DER terms); no panic reachable in any parser.",
  "Trusted: x/crypto v0.11.0 cryptobyte implements strict DER as documented (the reader / builder are specified, not analysed); C02, C06, C10; go/ssa; the checker. Panics inside the standard library are out of scope.",
  "abstract interpretation over go/ssa against a DER reader/builder specification; accept-set formulas compared as normal forms; linear-constraint (Fourier-Motzkin) bounds proofs"),
 "C13": ("other",
  "Static decision for every key, message and signature of every length: the result of SchnorrPublicKey.Verify, extracted by abstract interpretation as a propositional formula over term atoms, is equivalent to the BIP-340 Verify predicate (len = 64, r < p, s < n, R = s*G - e*P not the identity, y(R) even, Bytes(x(R)) = r, e = int(tagged SHA-256 of r || px || msg) mod n; s = 0 not rejected); the tagged hash equals SHA256(SHA256(tag)||SHA256(tag)||inputs) for 0..3 inputs and the three tag constants are the BIP's; NewSchnorrPublicKey accepts exactly 32-byte strings x with 0x02||x a valid compressed point (C06) and stores that point with a fresh copy of the bytes; objects of the two Schnorr key types are created only in the three constructors, each establishing the type invariant (even-y non-identity point, xBytes = Bytes(x(point)), d*G = point, nothing shared with the source key); slice conversions proven in bounds.",
  "Trusted: C16, C06, C01, C02, C10; crypto/sha256; go/ssa; the checker.",
  "abstract interpretation over go/ssa with SHA-256 transcript terms against lower-layer specifications; accept-set formulas compared as normal forms"),
 "C14": ("other",
  "Static decision for every key, aux value and message of every length: the bytes returned by signSchnorr equal, as terms over SHA-256 transcripts / scalar ring / point module and for both parities of y(R), the BIP-340 Sign algorithm (t = bytes(d) xor H_aux(a); rand = H_nonce(t||px||m); k' = int(rand) mod n, error if 0; R = k'G; k = +-k' by parity; e = int(H_challenge(x(R)||px||m)) mod n; sig = x(R) || (k + e*d)); a signature is returned exactly when k' != 0 and the mandatory self-check (= BIP-340 verification predicate with R = (s - e*d)G) of the produced bytes succeeds; Sign reads exactly 32 aux bytes with io.ReadFull (nil reader replaced), aborting on error; key derivation from an ECDSA key / point negates scalar and point together by the parity of y(d'G) and stores x of that point (rule shared with C13-4).",
  "Byte-for-byte equality with the BIP is decided relative to the abstract operations (SHA-256, k*G, scalar ring), i.e. modulo C01/C02/C05/C06; no test vector is run. Trusted: go/ssa, the checker.",
  "abstract interpretation over go/ssa with SHA-256 transcript terms; term equality with the BIP-340 algorithm; accept-set formulas as normal forms"),
 "C15": ("other",
  "Static decision for every message and every tag length: the suite functions fail exactly for the empty tag; their uniform bytes equal, as SHA-256 transcript terms and in both DST cases (<= 255: DST || I2OSP(len,1); > 255: SHA256('H2C-OVERSIZE-DST-' || DST) || 0x20), the blocks b_1[||b_2||b_3] of RFC 9380 5.3.1; NU = map(u[0:48]), RO = map(u[0:48]) + map(u[48:96]); SetUniformBytes = select(ok, identity, (x,y,1)) o IsoMap o MapToCurveSimpleSWU o (OS2IP mod p) with the validity flag set; MapToCurveSimpleSWU equals the 26-step procedure of RFC 9380 F.2 (written out in the checker) in all 16 cases of (exceptional input, gx1 square, sgn0(u), sgn0(y)); IsoMap is the rational map of its 13 literals with the flag [xden != 0 and yden != 0]; the literals read from the source satisfy the polynomial identity that makes the map send E' into y^2 = x^3 + 7 and equal RFC 9380 E.1; Z = -11 non-square with the RFC's criteria, A', B' of section 8.7, c2^2 = -Z; out-of-range output lengths refused.",
  "Not decided: collision resistance / uniformity (cryptographic). Trusted: C01 (wide reduction, sqrt_ratio, IsOdd = sgn0), C03, crypto/sha256, go/ssa, the checker.",
  "abstract interpretation over go/ssa with SHA-256 transcript terms; term equality with the RFC procedures; polynomial identities over F_p for the embedded constants"),
 "C16": ("other",
  "DoubleScalarMultBasepointVartime = u1*G + u2*P and MultiScalarMult(Vartime) = sum s_i*P_i decided by abstract interpretation in the Z/n-module domain for list lengths 0..3 with every receiver-among-inputs aliasing, mismatched lengths panic, length 1 delegates to the GLV multiply; a loop-shape rule (loops run j = 0..l-1 touching entry j only) extends the unrolled instances to every length.",
  "Trusted: C03-C05; the extension from lengths 0..3 to all lengths rests on the loop-shape rule; go/ssa; the checker.",
  "abstract interpretation over go/ssa in a Z/n-module domain + loop-shape rule"),
 "C06": ("other",
  "Static decision for every byte string of every length: the accept sets of SetCompressedBytes, SetUncompressedBytes, SetBytes, NewPointFromBytes and NewPointFromCoords (extracted by abstract interpretation on a symbolic input of symbolic length, as propositional formulas over atoms such as len = 33, src[0] = 2, x >= p, x^3+7 is a square, y^2 = x^3+7) are equivalent to the SEC 1 rule set; the stored point for prefixes 2/3/4/0 is (x, root with the parity of the prefix, 1) / (x,y,1) / (0,1,0) with the validity flag set; on every rejecting valuation the receiver's fields keep their initial symbols and the returned pointer is nil; the three encoders return 0x00 for Z = 0 and prefix || Bytes(X/Z) [|| Bytes(Y/Z)] otherwise (compressed prefix = 2 + parity(Y/Z)); RecoverPoint decided for every recovery id (0..3 concretely, >= 4 symbolically): x = r (+ n), accepted iff [x >= n] = bit 1, x mod n = r, x^3+7 a square, parity = bit 0; SplitUncompressedPoint = (b[1:33], b[64]&1), panics unless len = 65.",
  "Trusted: C01 (field specification incl. sqrt_ratio returning a root exactly when one exists), C02, C03-5 (rescale), the propositional comparison, go/ssa, the checker. Encode/decode round-trip identities follow from the decided clauses and C01's canonical Bytes; they are derived, not separately computed.",
  "abstract interpretation over go/ssa against the field specification; accept-set formulas and stored values compared as normal forms under every consistent valuation of the branch atoms"),
 "C08": ("other",
  "Static decision for all keys, digests and nonces: on the only path leaving sign's retry loop (loop state forgotten at the head; exit analysed from an arbitrary iteration) r = x(kG) mod n != 0, s0 = (r*d + e)/k != 0, and after the loop s = low-s form of s0 and v = (([x(kG) >= n] << 1) | parity(y(kG))) xor [s0 > (n-1)/2] for all eight flag valuations (so v in [0,3]); errors are exactly short digest / entropy failure / sampler failure. PrivateKey.Sign decided for nil options, a bare crypto.Hash, and *ECDSAOptions with hash unset/SHA-224/256/384/512, Encoding 0,1,2 and every other value, SelfVerify symbolic: bytes are returned exactly when the digest length matches, signing succeeded, the optional self-check passed and the encoding is defined; they are the matching builder applied to sign's (r,s,v), independent of SelfVerify; no bytes accompany an error; verify writes none of its operands.",
  "Trusted: C09 (k in [1,n)), C05, C06, C02, C07, C12 (builders/parsers agree). That the result verifies under the signer's key and that the emitted id recovers the signer are algebraic consequences of the decided formulas; derived, not computed.",
  "abstract interpretation over go/ssa (loop widening + exit-path analysis) against lower-layer specifications; terms and accept sets compared as normal forms"),
 "C09": ("other",
  "Structural decision (necessary conditions of the property, for every key, digest, reader behaviour and candidate stream): def-use in sign (the caller's reader reaches only mitigateDebianAndSony; the sampler reads only its result; it is keyed by the signing key and hashToScalar(digest)); mitigateDebianAndSony abstractly interpreted with an unknown reader: sentinel -> RFC 6979 generator whose initial K,V equal RFC 6979 3.2 b-g as HMAC-SHA-256 terms over int2octets(x)||bits2octets(h1); otherwise exactly one checked io.ReadFull of 32 bytes (nil reader replaced; no nil read reachable), error -> (nil, err), and a TupleHashXOF128 that absorbed Bytes(d), the 32 bytes, Bytes(e) in order exactly once; sampleRandomScalar (8 attempts unrolled, 766 paths): every accepted value is fn(E) of a block whose read error was nil and which was tested E < n and != 0 on that path (reject, never reduce), all other returns are errors with a nil scalar; drbgRFC6979.Read = RFC 6979 3.2 h (first read V=HMAC_K(V); after a rejected candidate K=HMAC_K(V||00), V=HMAC_K(V) first), 32-byte requests only; repo-specific errcheck over secec, bitcoin, h2c with five enumerated justified discards.",
  "NOT decided: that TupleHashXOF128 / HMAC-SHA-256 outputs change when an input changes and are unbiased (cryptographic assumption), hence 'two messages never share r' is decided only up to that assumption. Trusted: io.ReadFull contract, C02, go/ssa, the checker.",
  "abstract interpretation over go/ssa with hash/HMAC/XOF transcript terms; def-use and error-discipline scans over SSA"),
 "C10": ("other",
  "Static decision for all keys and inputs: ECDH(k,B) = Bytes(x(k.scalar * B.point)) with the identity the only error; accept sets of NewPrivateKey (32 bytes, < n, non-zero), NewPrivateKeyFromScalar (non-zero), NewPublicKey (valid SEC 1 encoding per C06 of a non-identity point), NewPublicKeyFromPoint (non-identity) as propositional normal forms; an accepted key stores fresh copies (allocation-site origin) of the scalar / point, the public point d*G and 04||x||y of the stored point; no key object accompanies an error; PrivateKey / PublicKey objects are allocated and written only inside the two unexported constructors (who-writes over every package of the module); accessors return fresh copies, do not write the key, and CompressedBytes = (2 + parity) || x of the stored point.",
  "Trusted: C04 (ScalarMult exact; symmetry ECDH(a,B) = ECDH(b,A) = x(ab*G) is its consequence, recorded as derived), C05, C06, C02; go/ssa; the checker.",
  "abstract interpretation over go/ssa against lower-layer specifications; accept-set formulas, stored values and allocation-site freshness; who-writes scan over SSA"),
 "C11": ("other",
  "Static decision for every digest, r, s and recovery id 0..255: RecoverPublicKey returns a key exactly when r,s != 0, the reconstruction of R succeeds, len(h) >= 32 and Q is not the identity, and then the key holds Q = (-e/r)*G + (s/r)*R (terms compared as normal forms in the Z/n-module) with its cached encoding; no key object accompanies an error; the defensive panic is unreachable. R reconstruction (RecoverPoint) decided for ids 0..3 concretely and >= 4 symbolically: x = r (+ n when bit 1), accepted iff [x >= n] = bit 1, x mod n = r, x^3 + 7 is a square; y parity = bit 0.",
  "Trusted: C02, C06, C16, C01 (sqrt). 'Every returned Q verifies (r,s)' and 'the id emitted by Sign recovers the signer' are algebraic consequences (Q = r^-1(sR - eG) <=> R = (e/s)G + (r/s)Q; C08 gives the id formula), recorded as derived, not separately computed.",
  "abstract interpretation over go/ssa against lower-layer specifications; accept-set formulas and values compared as normal forms"),
 "C07": ("other",
  "Static decision for all keys, digests and signatures: the accept sets of secec.verify (public- and private-key arms), VerifyRaw, PublicKey.Verify and bitcoin.VerifyASN1, extracted by abstract interpretation as propositional formulas over term atoms, are equivalent to the SEC 1 4.1.4 predicate (r,s != 0; len(h) >= 32; e = leftmost 32 bytes mod n; u1 = e/s, u2 = r/s; R = u1*G + u2*Q not the identity; x(R) mod n = r) plus the option rules: digest length = hash size (hash identifiers unset/SHA-224/256/384/512), parser chosen by Encoding (0,1,2; every other int rejected), s <= (n-1)/2 when RejectMalleable, recoverable signatures accepted iff the recovered key's encoding equals the verifier's; VerifyASN1 = BIP-66 envelope && Verify(sig minus last byte, {SHA256, ASN.1, RejectMalleable}); the Bitcoin options object is never written; verify writes none of its operands; no panic reachable.",
  "Trusted: C02, C05, C06, C11, C12, C16 (lower-layer specifications), the propositional comparison in internal/rules/boolform.go, go/ssa, the checker. Invalid crypto.Hash identifiers (Size() panics inside the standard library) are outside the property.",
  "abstract interpretation over go/ssa against lower-layer specifications; accept-set formulas compared as propositional normal forms"),
}

CLAIMED = ["C01", "C02", "C03", "C04", "C05", "C06", "C07", "C08", "C09", "C10", "C11", "C12", "C13", "C14", "C15", "C16", "C17", "C18", "C19"]

REASON_PENDING = "check under construction in this session (see DESIGN.md section 2); not yet claimed"

def main():
    ids = [json.loads(l)["id"] for l in open("/verif/properties.jsonl")]
    checks = []
    for pid in ids:
        if pid not in CLAIMED:
            continue
        cat, text, note, tech = P[pid]
        checks.append({
            "property_id": pid,
            "quick_cmd": f"cd /verif && bin/check {pid} --tier quick",
            "thorough_cmd": f"cd /verif && bin/check {pid} --tier thorough",
            "evidence_file": f"/verif/evidence/{pid}.json",
            "replay_cmd_template": f"cd /verif && bin/check {pid} --replay {{path}}",
            "engine": "check",
            "level_claimed": {"category": cat, "text": text, "design_ref": f"DESIGN.md section 2, {pid}"},
            "level_note": note,
            "technique": tech,
        })
    m = {
        "version": 1,
        "setup_cmd": SETUP,
        "hooks": {
            "guard": "verif",
            "enable": "none: every check is static and analyses /repo's working tree as it is; no instrumentation is compiled in",
            "baseline_off_cmd": "cd /repo && go test -vet=off -count=1 -timeout 25m ./...",
            "source_commits": [],
            "add_only": True,
        },
        "engines": [{"name": "check", "path": "/verif/cmd/check", "serves_properties": CLAIMED,
                     "kind_free_text": "Go static analyser: go/packages + go/ssa abstract interpreter (internal/absint) with symbolic polynomial terms (internal/sym), layer specifications (internal/models), limb-equation prover (internal/limbproof), Go-assembly abstract interpreter (internal/asmx), independent big-integer reference arithmetic for embedded constants (internal/refmath)"}],
        "checks": checks,
        "not_applicable": [{"property_id": i, "reason": REASON_PENDING} for i in ids if i not in CLAIMED],
        "notes": "All checks are static analyses of /repo's current working tree (no test of the repository is run, no library code is executed). Exit 0 = all obligations discharged; exit 1 = VIOLATION lines; exit 2 = CHECK-ERROR (tree does not load/type-check).",
    }
    json.dump(m, open("/verif/MANIFEST.json", "w"), indent=1)

if __name__ == "__main__":
    main()
