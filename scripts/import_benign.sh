#!/bin/bash
# usage: import_benign.sh <round-dir e.g. /tmp/benout7> <letter> <Cnn> -- verifies (applies, builds in both configurations, vets, runs the whole suite in both
# configurations) and files the sub-agent's behaviour-preserving patches as /verif/benign/<Cnn>-<letter><k>/
export GOFLAGS=-mod=mod GOPROXY=off GOSUMDB=off GOTOOLCHAIN=local; unset GOWORK
src="$1"; letter="$2"; p="$3"
git -C /repo worktree remove --force /tmp/wtb8/$p 2>/dev/null
for k in 1 2 3; do
  d="$src/$p/$k"
  [ -s "$d/patch.diff" ] || { echo "$p/$k: no patch"; continue; }
  D=$(mktemp -d /tmp/benimp.XXXXXX)
  rsync -a --exclude .git /repo/ "$D/repo/"
  if (cd "$D/repo" && git init -q . >/dev/null 2>&1 && git apply "$d/patch.diff") && (cd "$D/repo" && go build ./... && go build -tags purego ./... && go vet ./... && go test -vet=off -count=1 ./... >/dev/null 2>&1 && go test -vet=off -count=1 -tags purego ./... > /dev/null 2>&1); then
    mkdir -p /verif/benign/$p-$letter$k
    cp "$d/patch.diff" "$d/note.md" /verif/benign/$p-$letter$k/
    echo "$p-$letter$k filed"
  else
    echo "$p/$k: REJECTED (does not apply / build / pass the suite)"
  fi
  rm -rf "$D"
done
