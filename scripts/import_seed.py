#!/usr/bin/env python3
"""Verifies a seeded change produced by a sub-agent and, if it checks out, files it under /verif/seeded/<id>-<k>/.

usage: import_seed.py <id> <k> [--pkg <dir-relative-to-tree>] [--cmd '<demo cmd>']

What is run (recorded in meta.json["verified"]):
  1. scratch worktree of /repo HEAD under /tmp; demo placed; demo must PASS on the pristine tree;
  2. patch applied (git apply); go build ./... (default and -tags purego), go vet ./..., full suite must PASS;
  3. demo must FAIL on the patched tree.
The scratch worktree is removed afterwards.
"""
import json, os, shlex, shutil, subprocess, sys, tempfile

ENV = dict(os.environ, GOFLAGS="-mod=mod", GOPROXY="off", GOSUMDB="off", GOTOOLCHAIN="local")
ENV.pop("GOWORK", None)


def run(cmd, cwd):
    p = subprocess.run(cmd, shell=True, cwd=cwd, env=ENV, stdout=subprocess.PIPE, stderr=subprocess.STDOUT, text=True)
    out = "\n".join(l for l in p.stdout.splitlines() if "conda" not in l)
    return p.returncode, out


def main():
    pid, k = sys.argv[1], sys.argv[2]
    rnd = os.environ.get("SEED_ROUND", "")
    src = f"/tmp/seedout{rnd}/{pid}/{k}"
    meta = json.load(open(f"{src}/meta.json"))
    cmd = meta.get("demo_cmd", "")
    pkg = None
    fmap = {}
    args = sys.argv[3:]
    while args:
        if args[0] == "--pkg":
            pkg = args[1]
        elif args[0] == "--cmd":
            cmd = args[1]
        elif args[0] == "--map":
            fmap = dict(kv.split("=") for kv in args[1].split(","))
        args = args[2:]
    import re
    m = re.search(r"go test .*", cmd)
    if m:
        cmd = m.group(0)
    cmd = re.sub(r"\s+\(with .*$", "", cmd).strip()
    if pkg is None:
        toks = [t for t in shlex.split(cmd) if t.startswith(".")]
        pkg = toks[-1] if toks else "."
        pkg = pkg.rstrip("/").removesuffix("/...")
    demos = [f for f in os.listdir(src) if f.endswith(".go")]
    if not demos:
        print("no demo .go files in", src)
        return 2
    wt = tempfile.mkdtemp(prefix="seedchk.", dir="/tmp")
    os.rmdir(wt)
    log = []
    ok = False
    try:
        rc, out = run(f"git -C /repo worktree add --detach {wt} HEAD", "/")
        if rc != 0:
            print(out)
            return 2
        for d in demos:
            shutil.copy(f"{src}/{d}", os.path.join(wt, fmap.get(d, pkg), d))
        rc, out = run(cmd, wt)
        log.append({"step": "demo on pristine tree", "cmd": cmd, "exit": rc})
        if rc != 0:
            print("DEMO FAILS ON PRISTINE TREE\n", out[-3000:])
            return 1
        rc, out = run(f"git apply {src}/patch.diff", wt)
        if rc != 0:
            print("PATCH DOES NOT APPLY\n", out)
            return 1
        for d in demos:
            os.rename(os.path.join(wt, fmap.get(d, pkg), d), os.path.join(wt, fmap.get(d, pkg), d + ".off"))
        suite = "go build ./... && go build -tags purego ./... && go vet ./... && go test -vet=off -count=1 ./..."
        rc, out = run(suite, wt)
        log.append({"step": "build (default, purego), vet and full existing suite on patched tree", "cmd": suite, "exit": rc})
        if rc != 0:
            print("SUITE/BUILD FAILS WITH PATCH\n", out[-3000:])
            return 1
        for d in demos:
            os.rename(os.path.join(wt, fmap.get(d, pkg), d + ".off"), os.path.join(wt, fmap.get(d, pkg), d))
        rc, out = run(cmd, wt)
        log.append({"step": "demo on patched tree (must fail)", "cmd": cmd, "exit": rc})
        if rc == 0:
            print("DEMO PASSES WITH PATCH (change not demonstrated)")
            return 1
        ok = True
    finally:
        run(f"git -C /repo worktree remove --force {wt}", "/")
        shutil.rmtree(wt, ignore_errors=True)
        run("git -C /repo worktree prune", "/")
    if ok:
        dst = f"/verif/seeded/{pid}-{k}" if not rnd else f"/verif/seeded/{pid}-r{rnd}{k}"
        os.makedirs(dst, exist_ok=True)
        shutil.copy(f"{src}/patch.diff", dst)
        for d in demos:
            shutil.copy(f"{src}/{d}", f"{dst}/{d}.txt")
        if os.path.exists(f"{src}/demo.md"):
            shutil.copy(f"{src}/demo.md", dst)
        meta["demo_files"] = {d + ".txt": os.path.join(fmap.get(d, pkg), d) for d in demos}
        meta["demo_cmd"] = cmd
        meta["verified"] = log
        meta["origin"] = "written by an independent sub-agent given only the property text and a scratch worktree; confirmed here"
        json.dump(meta, open(f"{dst}/meta.json", "w"), indent=1)
        print("IMPORTED", dst)
        return 0
    return 1


if __name__ == "__main__":
    sys.exit(main())
