#!/usr/bin/env python3
"""Runs every registered check against every seeded change (scratch copy of /repo with the patch applied)
and records which checks report a violation: writes /verif/seeded/MATRIX.md and meta.json["caught_by"].
usage: matrix.py [seed-name ...]   (default: all)"""
import json, os, subprocess, sys, tempfile, shutil
from concurrent.futures import ThreadPoolExecutor

PROPS = ["C%02d" % i for i in range(1, 21)]
ENV = dict(os.environ, GOFLAGS="-mod=mod", GOPROXY="off", GOSUMDB="off", GOTOOLCHAIN="local")
ENV.pop("GOWORK", None)

def prep(seed):
    d = tempfile.mkdtemp(prefix="mx.", dir="/tmp")
    subprocess.run(["rsync", "-a", "--exclude", ".git", "/repo/", d + "/repo/"], check=True)
    p = subprocess.run(["git", "apply", "/verif/seeded/%s/patch.diff" % seed], cwd=d + "/repo", capture_output=True, text=True)
    if p.returncode != 0:
        shutil.rmtree(d)
        return None
    return d

def run(args):
    d, prop = args
    vd = tempfile.mkdtemp(prefix="ev.", dir=d)
    os.makedirs(vd + "/evidence", exist_ok=True)
    shutil.copy("/verif/KNOWN_FINDINGS.txt", vd)
    env = dict(ENV, VERIF_REPO=d + "/repo", VERIF_DIR=vd)
    p = subprocess.run(["/verif/bin/check", prop, "--tier", "quick"], env=env, capture_output=True, text=True)
    first = ""
    for l in p.stdout.splitlines():
        if l.startswith("  C") or l.startswith("  checker"):
            first = l.strip()[:220]
            break
    return prop, p.returncode, first

def main():
    seeds = sys.argv[1:] or sorted(x for x in os.listdir("/verif/seeded") if os.path.isdir("/verif/seeded/" + x))
    rows = []
    with ThreadPoolExecutor(max_workers=14) as ex:
        for seed in seeds:
            d = prep(seed)
            if d is None:
                rows.append((seed, None, {}))
                print(seed, "PATCH DOES NOT APPLY")
                continue
            res = list(ex.map(run, [(d, p) for p in PROPS]))
            shutil.rmtree(d, ignore_errors=True)
            caught = {p: first for p, rc, first in res if rc == 1}
            errs = [p for p, rc, first in res if rc not in (0, 1)]
            own = seed.split("-")[0]
            rows.append((seed, own, caught))
            mp = "/verif/seeded/%s/meta.json" % seed
            meta = json.load(open(mp))
            meta["caught_by"] = sorted(caught)
            meta["caught_by_own_property_check"] = own in caught
            meta["first_report"] = {p: caught[p] for p in sorted(caught)}
            json.dump(meta, open(mp, "w"), indent=1)
            print(seed, "own:", "YES" if own in caught else "NO ", "caught by:", " ".join(sorted(caught)), ("ERR:" + ",".join(errs)) if errs else "")
    with open("/verif/seeded/MATRIX.md", "w") as f:
        f.write("# Seeded changes vs. checks\n\nEach row: a confirmed behaviour-breaking change (written by an independent sub-agent from the property text only), the property it breaks, and the checks whose quick tier reports a violation on a scratch copy with the patch applied.\n\n| seed | breaks | caught by its own property's check | all checks reporting |\n|---|---|---|---|\n")
        for seed, own, caught in rows:
            if own is None:
                f.write("| %s | ? | patch does not apply | |\n" % seed)
                continue
            f.write("| %s | %s | %s | %s |\n" % (seed, own, "yes" if own in caught else "**no**", " ".join(sorted(caught))))

if __name__ == "__main__":
    main()
