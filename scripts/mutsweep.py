#!/usr/bin/env python3
"""Development aid (not a registered check): samples AST-level mutants of /repo's source (bin/mutate), and for each one that
still builds asks (1) do the checks of the properties anchored in that file report it, (2) if not, does any of the 20 checks,
(3) if none does, does the repository's own test suite.  Mutants that survive everything are printed for manual triage
(equivalent mutant, or a gap in the rules).  Everything happens in scratch copies under /tmp; results go to the file given.

usage: mutsweep.py <results.jsonl> <per-file-sample> <workers> [seed] [file ...]
"""
import json, os, random, shutil, subprocess, sys, tempfile, collections, threading
from concurrent.futures import ThreadPoolExecutor

ENV = dict(os.environ, GOFLAGS="-mod=mod", GOPROXY="off", GOSUMDB="off", GOTOOLCHAIN="local")
ENV.pop("GOWORK", None)
ALL = ["C%02d" % i for i in range(1, 21)]
SKIP = {"internal/gentable/point_mul_table.go", "internal/asm/gen_table_amd64.go", "internal/gentable/point_mul_table.bin", "point_mul_table_amd64.s"}

def anchors():
    m = collections.defaultdict(list)
    for l in open("/verif/properties.jsonl"):
        d = json.loads(l)
        for f in d["anchors"].get("files", []):
            m[f].append(d["id"])
    return m

def sh(cmd, cwd, env=ENV, timeout=3600):
    p = subprocess.run(cmd, shell=True, cwd=cwd, env=env, stdout=subprocess.PIPE, stderr=subprocess.STDOUT, text=True, errors='replace', timeout=timeout)
    return p.returncode, "\n".join(l for l in p.stdout.splitlines() if "conda" not in l)

def check(repo, prop):
    vd = tempfile.mkdtemp(prefix="ev.", dir=os.path.dirname(repo))
    os.makedirs(vd + "/evidence")
    shutil.copy("/verif/KNOWN_FINDINGS.txt", vd)
    rc, out = sh("/verif/bin/check %s --tier quick" % prop, "/", dict(ENV, VERIF_REPO=repo, VERIF_DIR=vd))
    shutil.rmtree(vd, ignore_errors=True)
    first = ""
    for l in out.splitlines():
        if l.startswith("  C") or l.startswith("  checker"):
            first = l.strip()[:200]
            break
    return rc, first

lock = threading.Lock()

def work(job):
    f, idx, line, op, desc, props, out = job
    d = tempfile.mkdtemp(prefix="msw.", dir="/tmp")
    res = {"file": f, "n": idx, "line": line, "op": op, "desc": desc}
    try:
        repo = d + "/repo"
        subprocess.run(["rsync", "-a", "--exclude", ".git", "/repo/", repo + "/"], check=True)
        rc, src = sh("/verif/bin/mutate -file %s -n %d" % (os.path.join(repo, f), idx), "/")
        if rc != 0:
            res["status"] = "mutate-error"
            return res
        open(os.path.join(repo, f), "w").write(src + "\n")
        rc, o = sh("go build ./... && go vet ./...", repo)
        if rc != 0:
            res["status"] = "no-build"
            return res
        caught = {}
        for p in props:
            rc, first = check(repo, p)
            if rc != 0:
                caught[p] = first
                break
        if not caught:
            with ThreadPoolExecutor(max_workers=4) as ex:
                for p, (rc, first) in zip([p for p in ALL if p not in props], ex.map(lambda p: check(repo, p), [p for p in ALL if p not in props])):
                    if rc != 0:
                        caught[p] = first
        if caught:
            res["status"] = "reported"
            res["by"] = caught
            return res
        rc, o = sh("go test -vet=off -count=1 ./... 2>&1 | tail -30", repo)
        fail = rc != 0 or "FAIL" in o
        res["status"] = "silent-tests-fail" if fail else "SURVIVOR"
        if fail:
            res["tests"] = [l for l in o.splitlines() if l.startswith("--- FAIL") or l.startswith("FAIL")][:4]
        return res
    except Exception as e:  # noqa
        res["status"] = "error: %r" % (e,)
        return res
    finally:
        shutil.rmtree(d, ignore_errors=True)
        with lock:
            with open(out, "a") as fh:
                fh.write(json.dumps(res) + "\n")
            print(res.get("status"), f, line, op, desc, res.get("by", ""), flush=True)

def main():
    out, per, workers = sys.argv[1], int(sys.argv[2]), int(sys.argv[3])
    seed = int(sys.argv[4]) if len(sys.argv) > 4 else 1
    files = sys.argv[5:]
    anc = anchors()
    if not files:
        files = sorted(f for f in anc if f.endswith(".go") and f not in SKIP)
    rnd = random.Random(seed)
    done = set()
    if os.path.exists(out):
        for l in open(out):
            r = json.loads(l)
            done.add((r["file"], r["n"]))
    jobs = []
    for f in files:
        rc, o = sh("/verif/bin/mutate -file /repo/%s -list" % f, "/")
        rows = [l.split("\t") for l in o.splitlines() if l.strip()]
        src = open("/repo/" + f).read().splitlines()
        comm = ("Multiply(", ".Add(", "XORBytes(", "Uint64Equal(", "bits.Add64(", "bits.Mul64(", "fiat.Add(", "fiat.Mul(")
        rows = [r for r in rows if not (r[2] == "swap-args" and any(c in src[int(r[1]) - 1] for c in comm))]
        rnd.shuffle(rows)
        k = per if "fiat" not in f else max(2, per // 4)
        for r in rows[:k]:
            if (f, int(r[0])) in done:
                continue
            jobs.append((f, int(r[0]), int(r[1]), r[2], r[3], anc.get(f, []), out))
    rnd.shuffle(jobs)
    print(len(jobs), "mutants", flush=True)
    with ThreadPoolExecutor(max_workers=workers) as ex:
        list(ex.map(work, jobs))
    st = collections.Counter()
    for l in open(out):
        st[json.loads(l)["status"].split(":")[0]] += 1
    print(dict(st))

if __name__ == "__main__":
    main()
