#!/bin/bash
# usage: round.sh <round> <Cnn> [k...]  -- removes the sub-agent's worktree, imports its seeded changes (confirming them), runs the property's own check on each
rnd="$1"; p="$2"; shift 2; ks="${*:-1 2}"
git -C /repo worktree remove --force /tmp/wt$rnd/$p 2>/dev/null
for k in $ks; do
  [ -f /tmp/seedout$rnd/$p/$k/patch.diff ] || { echo "no patch $p/$k"; continue; }
  SEED_ROUND=$rnd python3 /verif/scripts/import_seed.py $p $k 2>&1 | grep -v conda | tail -4
  [ -d /verif/seeded/$p-r$rnd$k ] && /verif/scripts/runseed.sh $p-r$rnd$k "$p" 2>&1 | grep -v conda | cut -c1-330
done
