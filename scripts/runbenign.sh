#!/bin/bash
# usage: runbenign.sh <patch.diff> ["<props>"]  -- applies a behaviour-PRESERVING change to a scratch copy of /repo and runs
# the given checks (default: all 20) against it; every check must stay silent.  Prints one line per alarming check.
set -u
patch="$1"; props="${2:-C01 C02 C03 C04 C05 C06 C07 C08 C09 C10 C11 C12 C13 C14 C15 C16 C17 C18 C19 C20}"
BIN="${BIN:-/verif/bin/check}"
D=$(mktemp -d /tmp/benrun.XXXXXX)
trap 'rm -rf "$D"' EXIT
rsync -a --exclude .git /repo/ "$D/repo/"
(cd "$D/repo" && git init -q . >/dev/null 2>&1; git apply "$patch") || { echo "$patch: patch does not apply"; exit 3; }
alarms=0
for p in $props; do
  (
  mkdir -p "$D/verif-$p/evidence"; cp /verif/KNOWN_FINDINGS.txt "$D/verif-$p/" 2>/dev/null
  out=$(VERIF_REPO="$D/repo" VERIF_DIR="$D/verif-$p" $BIN $p 2>&1 | grep -v conda)
  if echo "$out" | grep -q "^VIOLATION\|CHECK-ERROR\|panic"; then
    echo "ALARM $patch vs $p: $(echo "$out" | tail -1)"
    echo "$out" | grep -A1 "^VIOLATION" | grep -v "^VIOLATION" | grep -v "^--" | head -${LINES_MAX:-3} | cut -c1-500
  fi
  ) &
  while [ $(jobs -r | wc -l) -ge ${PAR:-10} ]; do sleep 0.2; done
done
wait
echo "done $patch"
