#!/bin/bash
# usage: runseed.sh <seed-dir-name> "<props>"   -- applies /verif/seeded/<name>/patch.diff to a scratch copy of /repo and runs the given checks against it
set -u
name="$1"; props="$2"
D=$(mktemp -d /tmp/seedrun.XXXXXX)
trap 'rm -rf "$D"' EXIT
rsync -a --exclude .git /repo/ "$D/repo/"
(cd "$D/repo" && git init -q . 2>/dev/null >/dev/null; git apply /verif/seeded/$name/patch.diff) || { echo "patch does not apply"; exit 3; }
mkdir -p "$D/verif/evidence"
cp /verif/KNOWN_FINDINGS.txt "$D/verif/" 2>/dev/null
for p in $props; do
  out=$(VERIF_REPO="$D/repo" VERIF_DIR="$D/verif" ${BIN:-/verif/bin/check} $p ${TIER:+--tier $TIER} 2>&1 | grep -v conda)
  rc=$?
  nv=$(echo "$out" | grep -c "^VIOLATION")
  echo "== $name vs $p: $(echo "$out" | tail -1)"
  echo "$out" | grep -A1 "^VIOLATION" | grep -v "^VIOLATION" | grep -v "^--" | head -${LINES_MAX:-4} | cut -c1-400
done
