#!/bin/bash
# usage: trymut.sh "<props>" <file-relative-to-repo> <sed-expression> [more file/sed pairs...]
# Copies /repo to a scratch dir, applies sed edits, checks it still builds, runs the given checks against it.
set -u
export GOFLAGS=-mod=mod GOPROXY=off GOSUMDB=off GOTOOLCHAIN=local; unset GOWORK
props="$1"; shift
D=$(mktemp -d /tmp/mut.XXXXXX)
trap 'rm -rf "$D"' EXIT
rsync -a --exclude .git /repo/ "$D/repo/"
while [ $# -ge 2 ]; do
  f="$1"; e="$2"; shift 2
  cp "$D/repo/$f" "$D/orig.tmp"
  sed -i -E "$e" "$D/repo/$f"
  if cmp -s "$D/repo/$f" "$D/orig.tmp"; then echo "MUTATION DID NOT APPLY: $f $e"; exit 3; fi
done
(cd "$D/repo" && go build ./... 2>&1 | grep -v conda | head -5)
mkdir -p "$D/verif/evidence"
cp /verif/KNOWN_FINDINGS.txt "$D/verif/" 2>/dev/null
for p in $props; do
  VERIF_REPO="$D/repo" VERIF_DIR="$D/verif" /verif/bin/check $p ${TIER:+--tier $TIER} 2>&1 | grep -v conda | grep -v "^VIOLATION" | head -${LINES_MAX:-12}
done
