#!/bin/bash
# usage: trymutp.sh <patch.diff> "<props>" <file> <sed-expr> [...]  -- applies a (behaviour-preserving) patch and then a breaking
# sed edit to a scratch copy of /repo, and runs the given checks: they must report the break in the refactored form too.
set -u
export GOFLAGS=-mod=mod GOPROXY=off GOSUMDB=off GOTOOLCHAIN=local; unset GOWORK
patch="$1"; props="$2"; shift 2
D=$(mktemp -d /tmp/mutp.XXXXXX)
trap 'rm -rf "$D"' EXIT
rsync -a --exclude .git /repo/ "$D/repo/"
(cd "$D/repo" && git init -q . >/dev/null 2>&1; git apply "$patch") || { echo "patch does not apply"; exit 3; }
while [ $# -ge 2 ]; do
  f="$1"; e="$2"; shift 2
  cp "$D/repo/$f" "$D/orig.tmp"
  sed -i -E "$e" "$D/repo/$f"
  if cmp -s "$D/repo/$f" "$D/orig.tmp"; then echo "MUTATION DID NOT APPLY: $f $e"; exit 3; fi
done
(cd "$D/repo" && go build ./... 2>&1 | grep -v conda | head -5)
mkdir -p "$D/verif/evidence"
cp /verif/KNOWN_FINDINGS.txt "$D/verif/" 2>/dev/null
for p in $props; do
  VERIF_REPO="$D/repo" VERIF_DIR="$D/verif" VERIF_NO_DEPS=${NO_DEPS:-1} ${BIN:-/verif/bin/check} $p 2>&1 | grep -v conda | grep -v "^VIOLATION" | head -${LINES_MAX:-4} | cut -c1-330
done
