#!/usr/bin/env python3-vt
import json, jsonschema, glob, sys
jsonschema.validate(json.load(open('/verif/MANIFEST.json')), json.load(open('/root/.vp/MANIFEST.schema.json')))
sch = json.load(open('/root/.vp/EVIDENCE.schema.json'))
m = json.load(open('/verif/MANIFEST.json'))
for c in m['checks']:
    jsonschema.validate(json.load(open(c['evidence_file'])), sch)
print('manifest + %d evidence files valid' % len(m['checks']))
